#!/bin/sh
# rebuilds the harness against the current tree and prints kernel and reference outputs
cd "$(dirname "$0")"
clang++-14 -std=c++17 -O2 -DNDEBUG -ffp-contract=off -fno-math-errno -mavx512f -mavx512vl -mavx512dq -mavx512bw -mavx512cd -mfma -I${FASTOR_ROOT:-/repo} -I/verif/fsv/include -o /tmp/fsv_replay_$$ harness.cpp || { echo "COMPILE-FAIL"; exit 1; }
echo kernel:; /tmp/fsv_replay_$$ < input_k.txt
echo reference:; /tmp/fsv_replay_$$ < input_r.txt
rm -f /tmp/fsv_replay_$$
