#include <Fastor/Fastor.h>
#include <complex>
#include <cstdint>
using namespace Fastor;
extern "C" void fsv_assume(int);

extern "C" __attribute__((noinline)) void k_mmmm_i32_9_9_9(const int* a, const int* b, int* c) { Tensor<int,9,9> A(a); Tensor<int,9,9> B(b); Tensor<int,9,9> C = matmul(A,B); for(int i_=0;i_<81;++i_) c[i_]=C.data()[i_]; }
extern "C" __attribute__((noinline)) void r_mmmm_i32_9_9_9(const int* a, const int* b, int* c) { for(int i=0;i<9;++i) for(int j=0;j<9;++j){ int s=0; for(int k=0;k<9;++k) s+=a[i*9+k]*b[k*9+j]; c[i*9+j]=s; } }

#include <cstdio>
#include <cstdlib>
#include <cstring>
#include <string>
#include <vector>
#include <iostream>
#include <sstream>
#include <exception>
struct FsvArg { int kind; int es; long n; };   // kind 0 in-buffer, 1 out/inout buffer, 2 scalar
struct FsvCase { const char* id; void (*k)(void**, unsigned long long*); void (*r)(void**, unsigned long long*); int nargs; FsvArg args[12]; };
extern FsvCase fsv_cases[]; extern int fsv_ncases;
extern "C" void fsv_assume(int) {}
static int hexv(char c){ return c<='9'? c-'0' : (c|32)-'a'+10; }
int main(){
    std::string line;
    while (std::getline(std::cin, line)) {
        std::istringstream is(line); int ci; std::string which; int mis;
        if(!(is >> ci >> which >> mis)) continue;
        FsvCase& c = fsv_cases[ci];
        void* p[12]; unsigned long long sc[12]; std::vector<char*> bases;
        for (int a=0;a<c.nargs;++a){
            std::string tok; is >> tok;
            if (c.args[a].kind==2){ sc[a]=strtoull(tok.c_str(),nullptr,16); p[a]=nullptr; bases.push_back(nullptr); continue; }
            size_t sz = (size_t)c.args[a].es*c.args[a].n; int m = mis<0 ? c.args[a].es : mis;
            char* base=(char*)malloc(sz+m); char* b=base+m; bases.push_back(base);
            for(size_t i=0;i<sz;++i) b[i]=(char)(hexv(tok[2*i])*16+hexv(tok[2*i+1]));
            p[a]=b;
        }
        bool exc=false;
        try { if (which=="k") c.k(p,sc); else c.r(p,sc); } catch(std::exception& e){ exc=true; }
        std::string out;
        if (exc) out="EXC";
        for (int a=0;a<c.nargs;++a){
            if (c.args[a].kind!=1) continue;
            size_t sz=(size_t)c.args[a].es*c.args[a].n; unsigned char* b=(unsigned char*)p[a];
            out+=' ';
            static const char* H="0123456789abcdef";
            for(size_t i=0;i<sz;++i){ out+=H[b[i]>>4]; out+=H[b[i]&15]; }
        }
        puts(out.c_str()); fflush(stdout);
        for (auto b: bases) free(b);
    }
    return 0;
}

static void tk_mmmm_i32_9_9_9(void** p, unsigned long long* sc){ k_mmmm_i32_9_9_9((const int*)p[0], (const int*)p[1], (int*)p[2]); }
static void tr_mmmm_i32_9_9_9(void** p, unsigned long long* sc){ r_mmmm_i32_9_9_9((const int*)p[0], (const int*)p[1], (int*)p[2]); }
FsvCase fsv_cases[] = {
  {"mmmm_i32_9_9_9", tk_mmmm_i32_9_9_9, tr_mmmm_i32_9_9_9, 3, {{0,4,81},{0,4,81},{1,4,81}}},
};
int fsv_ncases = 1;