"""C02 elementwise expression evaluation: R op= expr  ==  scalar loop applying the same C++ operations."""
from .common import *
import z3, itertools, random

ID = 'C02'
LEVEL = 'model_checking'
EXPLANATION = ('generated expression trees over tensors/scalars (unary -, abs, sqrt, + - * /, libm functions, comparisons, logical ops) are '
               'assigned with = += -= *= /= through the real expression-template evaluator, compiled to IR per ISA and executed symbolically; '
               'z3 decides, per flat position, bit-vector equality (ints, bools) or IEEE equality of the FloatingPoint terms (floats) with the '
               'plain scalar loop; libm calls are uninterpreted functions so "same function on the same lane" is decided by congruence')
ASSUMPTIONS = ['NaN payload/sign not compared (SMT-LIB FloatingPoint has one NaN); +0/-0 are distinguished',
               'integer division: divisor not in {0,-1}', 'libm accuracy outside the claim (uninterpreted)',
               'division by a scalar: element-wise either x/s or x*(1/s) accepted (documented reciprocal-multiply)']

MATH1 = ['sin', 'cos', 'tan', 'exp', 'log', 'sqrt', 'cbrt', 'asin', 'acos', 'atan', 'sinh', 'cosh', 'tanh', 'exp2', 'log2', 'log10', 'erf',
         'floor', 'ceil', 'round', 'trunc', 'lgamma', 'tgamma', 'expm1', 'log1p', 'asinh', 'acosh', 'atanh']


class E:
    """expression node: renders as Fastor expression and as scalar C++"""
    def __init__(s, kind, op=None, kids=()): s.kind = kind; s.op = op; s.kids = kids

    def tensor_valued(s):
        return s.kind == 'T' or (s.kind in ('un', 'bin', 'cmp', 'log', 'not', 'fn') and any(k.tensor_valued() for k in s.kids))

    def fastor(s, T):
        k = s.kind
        if k == 'T': return s.op.upper()
        if k == 'S': return 's[0]'
        if k == 'K': return f'({T}){s.op}'
        if k == 'un': return f'(-{s.kids[0].fastor(T)})'
        if k == 'fn': return f'{s.op}({s.kids[0].fastor(T)})'
        if k == 'not': return f'(!{s.kids[0].fastor(T)})'
        return f'({s.kids[0].fastor(T)} {s.op} {s.kids[1].fastor(T)})'

    def scalar(s, T):
        """the same C++ scalar operation; integer + - * and negation go through the unsigned type so that the reference
        itself has no signed-overflow UB for clang to exploit (two's-complement wrap is what the hardware does);
        && and || are rendered as & | on bool values (operands have no side effects) to keep the reference branch-free"""
        k = s.kind; isint = T in IT; U = {'int': 'unsigned', 'long': 'unsigned long'}.get(T)
        if k == 'T': return f'{s.op}[i]'
        if k == 'S': return 's[0]'
        if k == 'K': return f'({T}){s.op}'
        if k == 'un':
            if isint: return f'(({T})(({U})0 - ({U}){s.kids[0].scalar(T)}))'
            return f'(-{s.kids[0].scalar(T)})'
        if k == 'fn':
            if s.op == 'abs' and isint:
                x = s.kids[0].scalar(T); return f'(({x}) < 0 ? ({T})(({U})0 - ({U})({x})) : ({x}))'
            return f'std::{s.op}({s.kids[0].scalar(T)})'
        if k == 'not': return f'(!{s.kids[0].scalar(T)})'
        if k == 'log': return f'({s.kids[0].scalar(T)} {s.op[0]} {s.kids[1].scalar(T)})'
        if k == 'bin' and isint and s.op in '+-*':
            return f'(({T})(({U}){s.kids[0].scalar(T)} {s.op} ({U}){s.kids[1].scalar(T)}))'
        return f'({s.kids[0].scalar(T)} {s.op} {s.kids[1].scalar(T)})'

    def name(s):
        k = s.kind
        if k in ('T', 'S'): return s.op if k == 'T' else 's'
        if k == 'K': return 'k' + str(s.op)
        on = {'+': 'add', '-': 'sub', '*': 'mul', '/': 'div', '<': 'lt', '>': 'gt', '<=': 'le', '>=': 'ge', '==': 'eq', '!=': 'ne', '&&': 'and', '||': 'or'}
        if k == 'un': return 'neg' + s.kids[0].name()
        if k == 'fn': return s.op + s.kids[0].name()
        if k == 'not': return 'not' + s.kids[0].name()
        return on[s.op] + s.kids[0].name() + s.kids[1].name()

    def leaves(s):
        if s.kind in ('T', 'S', 'K'): return [s]
        return [l for k in s.kids for l in k.leaves()]

    def divisors(s):
        """sub-expressions used as divisors"""
        out = []
        if s.kind == 'bin' and s.op == '/': out.append(s.kids[1])
        for k in s.kids: out += k.divisors()
        return out

    def ub_sensitive(s):
        """integer trees where clang may exploit signed-overflow UB: arithmetic feeding a division or a comparison"""
        def arith(x): return x.kind in ('un', 'bin', 'fn')
        if s.kind == 'bin' and s.op == '/' and (arith(s.kids[0]) or arith(s.kids[1])): return True
        if s.kind == 'cmp' and (arith(s.kids[0]) or arith(s.kids[1])): return True
        return any(k.ub_sensitive() for k in s.kids)

    def uses_fn(s): return s.kind == 'fn' and s.op not in ('abs', 'sqrt') or any(k.uses_fn() for k in s.kids)
    def has_scalar_div(s): return (s.kind == 'bin' and s.op == '/' and s.kids[1].kind == 'S') or any(k.has_scalar_div() for k in s.kids)


A_, B_, C_, S_ = E('T', 'a'), E('T', 'b'), E('T', 'c'), E('S', 's')
def un(x): return E('un', '-', (x,))
def fn(f, x): return E('fn', f, (x,))
def bn(op, x, y): return E('bin', op, (x, y))
def cm(op, x, y): return E('cmp', op, (x, y))
def lg(op, x, y): return E('log', op, (x, y))


class Expr(Case):
    def __init__(s, T, n, e, assign, shape=None, boolean=False):
        s.T = T; s.n = n; s.e = e; s.assign = assign
        shp = shape or (n,)
        tt = f'Tensor<{T},{dims(*shp)}>'
        used = {l.op for l in e.leaves() if l.kind == 'T'}
        args = [Buf(nm, T, n) for nm in ('a', 'b', 'c') if nm in used]
        if any(l.kind == 'S' for l in e.leaves()): args.append(Buf('s', T, 1))
        RT = 'bool' if boolean else T
        rt = f'Tensor<{RT},{dims(*shp)}>'
        decl = ' '.join(f'{tt} {a.name.upper()}({a.name});' for a in args if a.name != 's')
        if assign == '=':
            out = Buf('o', RT, n, 'out')
            k = f'{decl} {rt} R = {e.fastor(T)}; ' + copy_out('R', 'o', n)
            r = f'for(int i=0;i<{n};++i) o[i] = {e.scalar(T)};'
        else:
            out = Buf('o', RT, n, 'inout')
            k = f'{decl} {rt} R(o); R {assign} {e.fastor(T)}; ' + copy_out('R', 'o', n)
            if T in IT and assign in ('+=', '-=', '*='):
                U = {'int': 'unsigned', 'long': 'unsigned long'}[T]
                r = f'for(int i=0;i<{n};++i) o[i] = ({T})(({U})o[i] {assign[0]} ({U})({e.scalar(T)}));'
            else:
                r = f'for(int i=0;i<{n};++i) o[i] {assign} {e.scalar(T)};'
        an = {'=': 'as', '+=': 'pe', '-=': 'me', '*=': 'te', '/=': 'de'}[assign]
        sh = 'x'.join(map(str, shp))
        Case.__init__(s, f'ex_{SHORT[T]}_{sh}_{an}_{e.name()}', args + [out], k, r, desc=f'{rt} R {assign} {e.fastor(T)}')
        s.dom = 'bits'; s.uses_uf = e.uses_fn(); s.timeout = 15
        isf = T in FT
        if isf and (e.has_scalar_div() or (assign == '/=' and e.kind == 'S')):
            # documented reciprocal multiply for division by a scalar
            rr = r.replace('/ s[0]', '* (({T})1 / s[0])'.format(T=T)) if assign != '/=' else f'for(int i=0;i<{n};++i) o[i] *= (({T})1 / ({e.scalar(T)}));'
            if rr != r: s.alt_ref_src = rr
        divs = e.divisors() + ([e] if assign == '/=' else [])
        s.narrow = (not isf) and e.ub_sensitive()
        if s.narrow and not divs:
            def pre0(V, n=n, w=CT[T][1], e=e):
                return narrow_range(V, e, n, w)
            s.pre_fn = pre0
        if not isf and divs:
            def pre(V, divs=divs, n=n, w=CT[T][1]):
                cs = []
                for d in divs:
                    if d.kind == 'T':
                        for i in range(n): cs += [V.el(d.op, i) != 0, V.el(d.op, i) != mask(-1, w)]
                    elif d.kind == 'S': cs += [V.el('s', 0) != 0, V.el('s', 0) != mask(-1, w)]
                    else: raise ValueError('int divisor must be a leaf')
                if s.narrow: cs += narrow_range(V, e, n, w)
                return cs
            s.pre_fn = pre


def narrow_range(V, e, n, w):
    """leaf operands small enough that no intermediate of a depth<=2 tree overflows (signed overflow is UB in the scalar C++ too)"""
    h = w // 2 - 2; cs = []
    lo = mask(-(1 << h), w); hi = (1 << h)
    for l in e.leaves():
        vs = [V.el(l.op, i) for i in range(n)] if l.kind == 'T' else ([V.el('s', 0)] if l.kind == 'S' else [])
        for v in vs: cs.append(z3.And(v >= z3.BitVecVal(lo, w), v < z3.BitVecVal(hi, w)))   # signed compare on BitVecRef
    return cs


def trees(T, depth, rng, cap):
    isf = T in FT
    leaves = [A_, B_, S_]
    ar = ['+', '-', '*', '/']
    d1 = []
    for op in ar:
        d1 += [bn(op, A_, B_), bn(op, A_, S_)]
        if op != '/' or isf: d1.append(bn(op, S_, A_))
    d1 += [un(A_), fn('abs', A_)]
    if isf: d1 += [fn('sqrt', A_)]
    if depth == 1: return d1
    d2 = []
    inner = [bn('+', A_, B_), bn('*', A_, S_), un(B_), fn('abs', B_), bn('-', S_, B_)] + ([fn('sqrt', B_), bn('/', A_, S_)] if isf else [])
    for x in inner:
        for op in ar:
            if op == '/' and not isf: continue
            d2 += [bn(op, x, C_), bn(op, C_, x)]
        d2 += [un(x), fn('abs', x)]
        if isf: d2.append(fn('sqrt', x))
    if not isf: d2 += [bn('/', bn('+', A_, B_), C_), bn('/', bn('-', A_, B_), S_)]
    rng.shuffle(d2)
    return d2[:cap]


def bool_trees():
    out = [cm(op, A_, B_) for op in ('<', '>', '<=', '>=', '==', '!=')]
    out += [cm('<', A_, S_), cm('==', bn('+', A_, S_), B_), lg('&&', cm('<', A_, B_), cm('>', A_, C_)), lg('||', cm('<', A_, B_), cm('==', A_, C_)),
            E('not', '!', (cm('<', A_, B_),))]
    return out


SIZES_Q = [1, 2, 3, 4, 5, 7, 8, 9, 15, 16, 17, 31, 33]
SIZES_T = list(range(1, 18)) + [23, 24, 25, 31, 32, 33, 47, 48, 49, 63, 64, 65]


def cases(tier, cfg, seed):
    rng = random.Random(seed + 17)
    out = []; seen = set()
    def add(c):
        if c.id not in seen: seen.add(c.id); out.append(c)
    sizes = SIZES_Q if tier == 'quick' else SIZES_T
    for T in ALLT:
        isf = T in FT
        # every size, one mixed tree (vector body / scalar tail seam for every residue)
        for n in sizes: add(Expr(T, n, bn('+', bn('*', A_, S_), un(B_)), '='))
        # depth 1: every operator, three sizes
        for e in trees(T, 1, rng, 0):
            for n in ((3, 9, 17) if tier == 'quick' else (3, 5, 9, 17, 33)): add(Expr(T, n, e, '='))
        # depth 2 covering set
        for e in trees(T, 2, rng, 24 if tier == 'quick' else 200): add(Expr(T, 9 if tier == 'quick' else rng.choice([7, 9, 17]), e, '='))
        # all five assignment forms
        for asg in ('+=', '-=', '*=', '/='):
            for e in ([A_, bn('+', A_, B_), S_] if tier == 'quick' else [A_, bn('+', A_, B_), bn('*', A_, S_), un(A_), S_]):
                if asg == '/=' and not isf and e.kind not in ('T', 'S'): continue      # integer divisor: leaves only (0 and -1 are excluded element-wise)
                for n in ((9,) if tier == 'quick' else (5, 9, 17)):
                    try: add(Expr(T, n, e, asg))
                    except ValueError: pass
        # rank-2 / rank-3 shapes
        add(Expr(T, 15, bn('-', A_, bn('*', B_, S_)), '=', shape=(3, 5)))
        add(Expr(T, 24, bn('+', A_, B_), '+=', shape=(2, 3, 4)))
        # comparisons and logical operators -> bool tensors
        for e in bool_trees():
            for n in ((9,) if tier == 'quick' else (4, 9, 17)):
                if e.kind == 'log': n = 5
                c = Expr(T, n, e, '=', boolean=True); c.max_paths = 1200; add(c)
        if isf:
            fns = MATH1 if tier == 'thorough' else ['sin', 'exp', 'log', 'tanh', 'floor', 'cbrt', 'round', 'ceil', 'trunc']
            for f in fns:
                add(Expr(T, 9, fn(f, A_), '='))
            add(Expr(T, 9, bn('+', fn('sin', A_), fn('cos', B_)), '='))
    return out


def cfgs(tier): return main_cfgs(tier)
def bounds(tier): return {'sizes': SIZES_Q if tier == 'quick' else SIZES_T, 'types': ALLT, 'tree_depth': 2, 'outside': 'complex tensors; trees deeper than 2; pow/atan2/hypot binary math'}
def mandatory(case_id, cfg_key): return False
def on_compile_fail(case, cfg, cf): return 'broken'
