"""C12 solve(A,b) satisfies A*x = b for every size, strategy and right-hand-side shape."""
from .common import *
from .linalg_gen import *

ID = 'C12'
LEVEL = 'model_checking'
EXPLANATION = ('solve<SolveCompType::X>(A,b) / solve(A,B) / the lazy solve are compiled per ISA and executed symbolically over exact reals '
               '(purified divisions, three-address naming); z3 decides A*x = b row by row (fresh instance per row) FOR ALL A with non-zero '
               'pivots/determinant and ALL b; pivoted strategies fork on the symbolic pivot comparisons; multi-column right-hand sides are '
               'checked column by column; above the size where NRA terminates within the cap only discharged rows are claimed')
ASSUMPTIONS = ['exact real arithmetic; the c*n*eps*cond(A) constant is outside the claim; pivots/determinant non-zero']
STR = ['SimpleInv', 'SimpleInvPiv', 'BlockLU', 'BlockLUPiv', 'SimpleLU', 'SimpleLUPiv']


class Solve(Lin):
    def __init__(s, T, n, strat, ncols=0, lazy=False, form='tt', rot=False):
        a = Buf('a', T, n * n); m = max(ncols, 1); b = Buf('b', T, n * m); x = Buf('x', T, n * m, 'out')
        tt = f'Tensor<{T},{n},{n}>'; bt = f'Tensor<{T},{n}>' if ncols == 0 else f'Tensor<{T},{n},{ncols}>'
        # form: which operands are expressions (t = tensor, e = expression) - the four solve() overloads
        ea = 'A' if form[0] == 't' else f'(A*{T}(1))'; eb = 'B' if form[1] == 't' else f'(B*{T}(1))'
        call = f'solve<SolveCompType::{strat}>({ea},{eb})' if not lazy else f'{bt}(solve(A,B))'
        k = f'{tt} A(a); {bt} B(b); {bt} X = {call}; ' + copy_out('X', 'x', n * m)
        Lin.__init__(s, f'solve_{SHORT[T]}_{n}_{strat}_{ncols}{"_lazy" if lazy else ""}{"" if form == "tt" else "_" + form}{"_rot" if rot else ""}', T, [a, b, x], k, f'{call} {tt}, rhs {bt}')
        s.n = n; s.m = m
        if 'Piv' in strat: s.max_paths = 80
        if rot:
            # A = upper-bidiagonal U with its first and last rows exchanged (and U[0][1] = 0): the static column-max pre-pivot
            # (unary_piv_op.h) has exactly one non-zero candidate per column, so the pivot path is forced and yields U, on which
            # every pivoted strategy is defined; a strategy that does not pivot meets a singular leading block for all such A
            nzd = []
            for r in range(n):
                ur = {0: n - 1, n - 1: 0}.get(r, r)
                for j in range(n):
                    if j == ur: nzd.append(r * n + j)
                    elif not (j == ur + 1 and ur != 0): a.fixed[r * n + j] = 0
            s.pre_fn = lambda V: [V.el('a', i) != 0 for i in nzd]

    def path_obligations(s, mod, kp, stats):
        if kp.status != 'ok': return [Obl('status', z3.BoolVal(False), kp.pc, note='path ended with ' + kp.status)]
        n, m = s.n, s.m; dom = kp.dom; w = s.w
        A = s.mat(kp, 'a', n, n, symbolic_in=True); B = s.mat(kp, 'b', n, m, symbolic_in=True); X = s.mat(kp, 'x', n, m)
        if any(v is None for r in X.rows for v in r): return [Obl('x', z3.BoolVal(False), kp.pc, note='result element unwritten', kind='unwritten')]
        na = dom.nameall; dom.nameall = False
        AX = matmul_fm(dom, A, X, w); dom.nameall = na
        return s.eqs(kp, [(f'Ax[{i},{j}]', AX[i, j], B[i, j]) for i in range(n) for j in range(m)])

    def native_check(s, inp, rk, rr):
        mm = s.nat_mats(inp, rk); n, m = s.n, s.m; A = mm['a'].reshape(n, n); B = mm['b'].reshape(n, m); X = mm['x'].reshape(n, m)
        if not np.all(np.isfinite(A)) or np.linalg.cond(A) > 1e4: return None
        if 'Piv' in s.id and not np.all(np.isfinite(X)): return 'x is not finite for a well-conditioned A'
        r = np.abs(A @ X - B).max(); sc = max(1.0, np.abs(B).max(), (np.abs(A) @ np.abs(X)).max())
        return f'|A*x-b| = {r:.3g}' if r > s.bound(n, np.linalg.cond(A)) * sc else None


def cases(tier, cfg, seed):
    out = []
    for T in (['double'] if tier == 'quick' else ['double', 'float']):
        for n in (1, 2, 3, 4):
            for st in STR:
                if 'Piv' in st and n > (2 if tier == 'quick' else 3): continue
                out.append(Solve(T, n, st))
            out.append(Solve(T, n, 'SimpleInv', 2)); out.append(Solve(T, n, 'SimpleLU', 3 if n > 1 else 2)); out.append(Solve(T, n, 'SimpleInv', 0, lazy=True))
            if n in (2, 3) and (n == 2 or tier != 'quick' or T == 'double'):
                for st in ('SimpleInvPiv', 'SimpleLUPiv', 'BlockLUPiv'): out.append(Solve(T, n, st, 2))
        for n in (() if tier == 'quick' else (5, 6, 7, 8)):
            out.append(Solve(T, n, 'SimpleLU')); out.append(Solve(T, n, 'BlockLU'))
        if tier != 'quick': out.append(Solve(T, 5, 'SimpleInv')); out.append(Solve(T, 6, 'SimpleLU', 2))
        # the four operand forms (tensor / expression) must forward the requested strategy; n = 5 is past the closed-form inverse
        for form in ('et', 'te', 'ee'):
            out.append(Solve(T, 2, 'SimpleLUPiv', 0, form=form))
            for st in (('SimpleLUPiv', 'SimpleInvPiv') if tier == 'quick' else ('SimpleLUPiv', 'BlockLUPiv', 'SimpleInvPiv')):
                out.append(Solve(T, 5, st, 0, form=form, rot=True))
        out.append(Solve(T, 5, 'SimpleLUPiv', 2, form='et', rot=True)); out.append(Solve(T, 5, 'SimpleLUPiv', 0, rot=True))
    if tier == 'quick': out.append(Solve('float', 3, 'SimpleLU')); out.append(Solve('float', 4, 'SimpleInv'))
    return out


def cfgs(tier): return main_cfgs(tier)
def bounds(tier): return {'all_A_all_b': 'n <= 4 all strategies (pivoted n <= 3); LU-based n = 5,6 (quick) .. 8 row-wise under the cap', 'rhs_columns': '1..3', 'outside': 'boundary sizes; QR/Cholesky solve types; stability constant'}
def mandatory(case_id, cfg_key): return False
def on_compile_fail(case, cfg, cf): return 'broken'
