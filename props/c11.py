"""C11 LU factors are triangular and reproduce the (row-permuted) matrix."""
from .common import *
from .linalg_gen import *

ID = 'C11'
LEVEL = 'model_checking'
EXPLANATION = ('lu<LUCompType::X>(A,L,U[,P]) is compiled per ISA and executed symbolically over exact reals with purified divisions and '
               'three-address naming; decided for ALL matrices with non-zero pivots: the strictly-upper part of L and strictly-lower part of U '
               'are the exact constant 0, diag(L) is the exact constant 1, and (L*U)[i,:] = A[P(i),:] entry by entry (fresh z3 instance per '
               'entry); pivoted strategies fork on the symbolic |a_ij| comparisons, every explored pivot path is a for-all claim over its input '
               'region and the returned permutation (vector or matrix encoding) must be a bijection; reconstruct(L,U,P) must return A')
ASSUMPTIONS = ['exact real arithmetic; pivots non-zero; the backward-error constant is outside the claim', 'pivoted: explored pivot paths / path budget reported']


class LU(Lin):
    def __init__(s, T, n, strat, penc=None, recon=False, structure_only=False):
        a = Buf('a', T, n * n); l = Buf('l', T, n * n, 'out'); u = Buf('u', T, n * n, 'out'); args = [a, l, u]
        tt = f'Tensor<{T},{n},{n}>'
        piv = 'Piv' in strat
        if piv and penc == 'V': pdecl = f'Tensor<size_t,{n}> P;'; pcopy = f'for(int q=0;q<{n};++q) p[q]=(long)P.data()[q];'; args.append(Buf('p', 'long', n, 'out'))
        elif piv: pdecl = f'{tt} P;'; pcopy = copy_out('P', 'p', n * n); args.append(Buf('p', T, n * n, 'out'))
        else: pdecl = pcopy = ''
        rc = ''
        if recon:
            args.append(Buf('r', T, n * n, 'out'))
            rc = f'{tt} R = reconstruct(L,U{",P" if piv else ""}); ' + copy_out('R', 'r', n * n)
        k = (f'{tt} A(a), L, U; {pdecl} lu<LUCompType::{strat}>(A,L,U{",P" if piv else ""}); ' + copy_out('L', 'l', n * n) + ' ' + copy_out('U', 'u', n * n) + ' ' + pcopy + ' ' + rc)
        Lin.__init__(s, f'lu_{SHORT[T]}_{n}_{strat}{penc or ""}{"_rec" if recon else ""}', T, args, k, f'lu<{strat}> {tt}' + (' + reconstruct' if recon else ''))
        s.n = n; s.piv = piv; s.penc = penc; s.recon = recon; s.structure_only = structure_only
        if structure_only: s.id += '_struct'; s.budget = 900; s.nameall = False; s.weight = 100
        if piv: s.max_paths = 80

    def path_obligations(s, mod, kp, stats):
        if kp.status != 'ok': return [Obl('status', z3.BoolVal(False), kp.pc, note='path ended with ' + kp.status)]
        n = s.n; dom = kp.dom; w = s.w
        A = s.mat(kp, 'a', n, n, symbolic_in=True); L = s.mat(kp, 'l', n, n); U = s.mat(kp, 'u', n, n)
        obls = s.structure(kp, L, lambda i, j: j > i, 0, 'L') + s.structure(kp, L, lambda i, j: i == j, 1, 'L') + s.structure(kp, U, lambda i, j: j < i, 0, 'U')
        if any(v is None for M_ in (L, U) for r in M_.rows for v in r) or s.structure_only: return obls
        na = dom.nameall; dom.nameall = False
        LUm = matmul_fm(dom, L, U, w); dom.nameall = na
        rows = None; extra = []
        if s.piv:
            rd = Reader(dom); pa = [x for x in s.args if x.name == 'p'][0]
            if s.penc == 'V':
                P = [as_bits(rd.elem(kp.bufs['p'], pa, i), 64) for i in range(n)]
                PB = [bv(x, 64) for x in P]
                extra.append(Obl('P is a bijection', z3.And([z3.ULT(x, z3.BitVecVal(n, 64)) for x in PB] + ([z3.Distinct(*PB)] if n > 1 else [])), kp.pc))
                rows = [[(lambda i, j: _sel([(PB[i] == k_, A[k_, j]) for k_ in range(n)], dom, w))(i, j) for j in range(n)] for i in range(n)]
            else:
                Pm = s.mat(kp, 'p', n, n)
                if any(v is None for r in Pm.rows for v in r): return obls + [Obl('P', z3.BoolVal(False), kp.pc, note='P unwritten', kind='unwritten')]
                ent = [Pm[i, j].r for i in range(n) for j in range(n)]
                perm = z3.And([z3.Or(e == 0, e == 1) for e in ent] + [sum(Pm[i, j].r for j in range(n)) == 1 for i in range(n)] + [sum(Pm[i, j].r for i in range(n)) == 1 for j in range(n)])
                extra.append(Obl('P is a permutation matrix', perm, kp.pc, hyp=s.hyps(kp)))
                PA = matmul_fm(dom, Pm, A, w); rows = PA.rows
        else:
            rows = A.rows
        tri = [(f'LU[{i},{j}]', LUm[i, j], rows[i][j]) for i in range(n) for j in range(n)]
        obls += extra + s.eqs(kp, tri)
        if s.recon:
            R = s.mat(kp, 'r', n, n)
            obls += s.eqs(kp, [(f'reconstruct[{i},{j}]', R[i, j], A[i, j]) for i in range(n) for j in range(n)])
        return obls

    def native_check(s, inp, rk, rr):
        m = s.nat_mats(inp, rk); n = s.n; A = m['a'].reshape(n, n); L = m['l'].reshape(n, n); U = m['u'].reshape(n, n)
        if not np.all(np.isfinite(A)): return None
        bad = []
        if np.abs(np.triu(L, 1)).max() != 0 or np.abs(np.tril(U, -1)).max() != 0 or np.abs(np.diag(L) - 1).max() != 0: bad.append('L/U not exactly triangular')
        PA = A
        if s.piv:
            if s.penc == 'V':
                P = m['p']
                if sorted(P.tolist()) != list(range(n)): return 'P is not a bijection: ' + str(P.tolist())
                PA = A[P, :]
            else: PA = m['p'].reshape(n, n) @ A
        scale = max(1.0, (np.abs(L) @ np.abs(U)).max())
        if scale < 1e6 and np.abs(L @ U - PA).max() > s.bound(n) * scale: bad.append(f'|L*U-P*A| = {np.abs(L @ U - PA).max():.3g}')
        if s.recon and scale < 1e6 and np.abs(m['r'].reshape(n, n) - A).max() > s.bound(n) * scale: bad.append('reconstruct != A')
        return '; '.join(bad) or None


def _sel(pairs, dom, w):
    r = pairs[-1][1]
    for c, v in reversed(pairs[:-1]): r = dom.select(c, v, r)
    return r


def cases(tier, cfg, seed):
    out = []
    TS = ['double'] if tier == 'quick' else ['double', 'float']
    for T in TS:
        for n in ((1, 2, 3, 4, 5, 8, 9) if tier == 'quick' else list(range(1, 13)) + [16, 17]):
            for st in ('SimpleLU', 'BlockLU'): out.append(LU(T, n, st))
        out.append(LU(T, 4, 'SimpleLU', recon=True))
        for n in ((2, 3) if tier == 'quick' else (2, 3, 4)):
            for st in ('SimpleLUPiv', 'BlockLUPiv'):
                for enc in ('V', 'M'): out.append(LU(T, n, st, enc, recon=(enc == 'V')))
    if tier == 'quick': out.append(LU('float', 4, 'SimpleLU')); out.append(LU('float', 8, 'BlockLU'))
    # first blocked step (n > 32): exact 0/1 structure of L and U for all A (values outside the bound)
    out.append(LU('double', 33, 'BlockLU', structure_only=True))
    return out


def cfgs(tier): return main_cfgs(tier)
def bounds(tier): return {'unpivoted': 'n in {1..5,8,9} (quick) / 1..12,16,17', 'pivoted': 'n <= 3 (quick) / 4, all pivot paths within the path budget', 'outside': 'block boundaries 32|33, 64|65; growth-factor judgement; backward-error constant'}
def mandatory(case_id, cfg_key): return False
def on_compile_fail(case, cfg, cf): return 'broken'
