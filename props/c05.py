"""C05 writing through a slice changes exactly the selected elements and nothing else."""
from .common import *
from .views_gen import *
from .c04 import fs, sel_of, spec_cpp, fseq_family
import z3, itertools, random

ID = 'C05'
LEVEL = 'model_checking'
EXPLANATION = ('A(slice) op= rhs for the five operators and rhs in {scalar, tensor, slice of another tensor, elementwise expression, expression '
               'needing evaluation}, with symbolic (first,last,step) per axis and symbolic contents of A and rhs, is executed symbolically on the '
               'compiled view-assignment code; stores at symbolic addresses become conditional updates, so z3 decides for EVERY element of A: '
               'selected => old op rhs, not selected => unchanged (frame condition), for all admissible ranges at once; writes outside A are '
               'out-of-bounds in the region model; compile-time ranges and two-write sequences are enumerated with symbolic data')
ASSUMPTIONS = ['ranges as in C04', 'integer /=: rhs elements not in {0,-1}', 'floats compared with IEEE equality of the FloatingPoint terms (NaN payload aside)',
               'writes into the alignment padding of the owning tensor A itself are not observable and not judged']


def rhs_kinds(T, n_shape, kind):
    """returns (extra args, fastor rhs expr, decls, scalar rhs expr in terms of flat destination index `q`)"""
    n = prod(n_shape); tn = f'Tensor<{T},{dims(*n_shape)}>'
    if kind == 'scalar': return [Buf('x', T, 1)], 'x[0]', '', 'x[0]'
    if kind == 'tensor': return [Buf('b', T, n)], 'B', f'{tn} B(b);', 'b[q]'
    if kind == 'expr':
        e = 'b[q]+c[q]' if T in FT else f'({T})(({UT[T]})b[q]+({UT[T]})c[q])'
        return [Buf('b', T, n), Buf('c', T, n)], '(B+C)', f'{tn} B(b), C(c);', e
    if kind == 'slice':   # slice of another, larger 1-D tensor with concrete range of equal extent
        return [Buf('b', T, 2 * n + 1)], f'B(fseq<1,{2 * n + 1},2>())', f'Tensor<{T},{2 * n + 1}> B(b);', 'b[1+2*q]'
    if kind == 'matvec':  # expression requiring evaluation
        e = '+'.join(f'm[q*{n}+{k}]*v[{k}]' for k in range(n)) if T in FT else None
        return [Buf('m', T, n * n), Buf('v', T, n)], '(M % V)', f'Tensor<{T},{n},{n}> M(m); Tensor<{T},{n}> V(v);', e
    raise ValueError(kind)


class DynWrite(Case):
    def __init__(s, T, shape, oshape, op, kind, macro_tag=''):
        n = len(shape); sz = prod(shape); osz = prod(oshape); st = strides(shape); ost = strides(oshape)
        a = Buf('a', T, sz, 'inout'); sc = []
        for k in range(n): sc += [Scal(f'f{k}', 'int'), Scal(f'l{k}', 'int'), Scal(f's{k}', 'int')]
        extra, fr, decls, sr = rhs_kinds(T, oshape, kind)
        seqs = ','.join(f'seq(f{k},l{k},s{k})' for k in range(n))
        k = f'Tensor<{T},{dims(*shape)}> A(a); {decls} A({seqs}) {op} {fr}; ' + copy_out('A', 'a', sz)
        loops = ''.join(f'for(int j{k}=0;j{k}<{oshape[k]};++j{k}) ' for k in range(n))
        dst = 'a[' + '+'.join(f'(F{k}+j{k}*s{k})*{st[k]}' for k in range(n)) + ']'
        q = '+'.join(f'j{k}*{ost[k]}' for k in range(n))
        pre_r = ''
        if kind == 'matvec':   # evaluate the rhs into a temporary first (the rhs does not alias A)
            pre_r = f'{T} t_[{osz}]; for(int q=0;q<{osz};++q) {{ {T} s_=0; for(int k=0;k<{osz};++k) s_+=m[q*{osz}+k]*v[k]; t_[q]=s_; }} '
            sr = 't_[q]'
        r = pre_r + ' '.join(f'long F{k} = {norm_c(f"f{k}", shape[k])};' for k in range(n)) + f' {loops} {{ int q = {q}; ' + apply_op(T, op, dst, sr) + ' }'
        def pre(V):
            cs = []
            for k in range(n): cs += seq_pre(V, f'f{k}', f'l{k}', f's{k}', shape[k], oshape[k])
            if T in IT and op == '/=':
                w = CT[T][1]
                for b_ in extra:
                    for i in range(b_.n): cs += [V.el(b_.name, i) != 0, V.el(b_.name, i) != mask(-1, w)]
            return cs
        Case.__init__(s, f'w{kind[:3]}_{SHORT[T]}_{"x".join(map(str, shape))}_{"x".join(map(str, oshape))}_{OPN[op]}{macro_tag}', [a] + extra + sc, k, r,
                      desc=f'A({seqs}) {op} {fr}: parent {shape}, extent {oshape}, {T}', pre=pre)
        s.dom = 'real' if kind == 'matvec' else ('uf' if T in FT else 'bits'); s.uf_int = T in IT; s.max_paths = 400; s.timeout = 20; s.weight = 40 if len(shape) > 1 else (10 if oshape[0] >= 8 else 3)
        if len(shape) > 1: s.budget = 400
        if T in FT and op == '/=' and kind == 'scalar': s.alt_ref_src = r.replace(apply_op(T, op, dst, sr), f'{dst} *= (({T})1/x[0]);')


class FixWrite(Case):
    def __init__(s, T, shape, specs, op, kind):
        n = len(shape); sz = prod(shape); st = strides(shape)
        sels = [sel_of(sp, shape[k]) for k, sp in enumerate(specs)]
        oshape = [len(ix) for ix, dropped in sels if not dropped] or [1]; osz = prod(oshape)
        a = Buf('a', T, sz, 'inout'); extra, fr, decls, sr = rhs_kinds(T, oshape, kind)
        call = ','.join(spec_cpp(sp) for sp in specs)
        k = f'Tensor<{T},{dims(*shape)}> A(a); {decls} A({call}) {op} {fr}; ' + copy_out('A', 'a', sz)
        lines = []
        for q, combo in enumerate(itertools.product(*[ix for ix, _ in sels])):
            off = sum(c * st[k2] for k2, c in enumerate(combo))
            lines.append('{ int q=%d; %s }' % (q, apply_op(T, op, f'a[{off}]', sr)))
        def pre(V):
            cs = []
            if T in IT and op == '/=':
                w = CT[T][1]
                for b_ in extra:
                    for i in range(b_.n): cs += [V.el(b_.name, i) != 0, V.el(b_.name, i) != mask(-1, w)]
            return cs
        nm = '_'.join((sp[0][0] + '_'.join(str(x).replace('-', 'm') for x in sp[1:])) for sp in specs)
        Case.__init__(s, f'fw{kind[:3]}_{SHORT[T]}_{"x".join(map(str, shape))}_{nm}_{OPN[op]}', [a] + extra, k, ' '.join(lines), desc=f'A({call}) {op} {fr} on {shape} {T}', pre=pre)
        s.dom = ('real' if kind == 'matvec' else 'uf') if T in FT else 'bits'     # concrete addresses: exact integer arithmetic
        if T in FT and op == '/=' and kind == 'scalar': s.alt_ref_src = ' '.join(l.replace('/= x[0]', f'*= (({T})1/x[0])') for l in lines)


class ElemWrite(Case):
    def __init__(s, T, shape):
        n = len(shape); sz = prod(shape); st = strides(shape)
        a = Buf('a', T, sz, 'inout'); x = Buf('x', T, 1); idx = [Scal(f'i{k}', 'int') for k in range(n)]
        k = f'Tensor<{T},{dims(*shape)}> A(a); A({",".join(f"i{k}" for k in range(n))}) = x[0]; ' + copy_out('A', 'a', sz)
        r = ' '.join(f'long j{k} = i{k}<0 ? i{k}+{shape[k]} : i{k};' for k in range(n)) + ' a[' + '+'.join(f'j{k}*{st[k]}' for k in range(n)) + '] = x[0];'
        def pre(V): return [c for k in range(n) for c in (V[f'i{k}'] >= -shape[k], V[f'i{k}'] < shape[k])]
        Case.__init__(s, f'elw_{SHORT[T]}_{"x".join(map(str, shape))}', [a, x] + idx, k, r, desc=f'A(i...) = x on {shape} {T}', pre=pre)
        s.dom = 'bits'


class TwoWrites(Case):
    """history of two writes through possibly overlapping slices of the same tensor"""
    def __init__(s, T, N, n):
        a = Buf('a', T, N, 'inout'); b = Buf('b', T, n); c = Buf('c', T, n)
        sc = [Scal(x, 'int') for x in ('f0', 'l0', 's0', 'f1', 'l1', 's1')]
        k = f'Tensor<{T},{N}> A(a); Tensor<{T},{n}> B(b), C(c); A(seq(f0,l0,s0)) = B; A(seq(f1,l1,s1)) += C; ' + copy_out('A', 'a', N)
        r = (f'long F0={norm_c("f0", N)}; long F1={norm_c("f1", N)}; for(int q=0;q<{n};++q) a[F0+q*s0]=b[q]; for(int q=0;q<{n};++q) {{ ' + apply_op(T, '+=', 'a[F1+q*s1]', 'c[q]') + ' }')
        def pre(V): return seq_pre(V, 'f0', 'l0', 's0', N, n) + seq_pre(V, 'f1', 'l1', 's1', N, n)
        Case.__init__(s, f'two_{SHORT[T]}_{N}_{n}', [a, b, c] + sc, k, r, desc=f'A(r1)=B; A(r2)+=C on Tensor<{T},{N}>, extent {n}', pre=pre)
        s.dom = 'uf' if T in FT else 'bits'; s.uf_int = T in IT; s.max_paths = 400; s.timeout = 30; s.weight = 50


OPS = ['=', '+=', '-=', '*=', '/=']


def cases(tier, cfg, seed):
    rng = random.Random(seed + 5); out = []; ids = set()
    def add(c):
        if c.id not in ids: ids.add(c.id); out.append(c)
    TS = ['double', 'int', 'float'] if tier == 'quick' else ALLT
    for T in TS:
        isf = T in FT
        for N, n in ([(9, 4), (9, 8), (5, 3)] if tier == 'quick' else [(9, 4), (9, 8), (9, 5), (5, 3), (17, 8), (17, 4), (8, 8), (9, 1)]):
            for op in OPS:
                if op == '/=' and T in IT: continue      # symbolic-address integer division: bit-blasted sdiv inside ite chains does not terminate (fixed ranges cover int /=)
                kinds = ['tensor', 'scalar'] if (tier == 'quick' and op not in ('=', '+=')) else ['tensor', 'scalar', 'expr', 'slice']
                if tier == 'quick' and (N, n) != (9, 4): kinds = ['tensor']
                if tier == 'quick' and (N, n) != (9, 4) and op in ('*=', '/=') and T in IT: continue
                for kind in kinds: add(DynWrite(T, (N,), (n,), op, kind))
        if isf: add(FixWrite(T, (9,), [fs(1, 7, 2)], '+=', 'matvec')); add(FixWrite(T, (9,), [fs(2, 6)], '=', 'matvec')); add(FixWrite(T, (9,), [fs(0, 8, 2)], '-=', 'matvec'))
        for shape, osh in (([((4, 9), (2, 4))] if (T == 'double' and cfg.isa == 'avx2') else ([((4, 5), (2, 2))] if (T == 'double' and cfg.isa == 'sse2') else [])) if tier == 'quick' else [((4, 9), (2, 4)), ((5, 5), (3, 2)), ((3, 8), (3, 8)), ((4, 9), (4, 3))]):
            for op in (('=',) if tier == 'quick' else OPS):
                for kind in ('tensor', 'scalar'): add(DynWrite(T, shape, osh, op, kind))
        for shape in ((7,), (3, 5), (2, 3, 4)): add(ElemWrite(T, shape))
        if (T == 'double' and cfg.isa == 'sse2') or tier != 'quick': add(TwoWrites(T, 9, 3))
        if tier != 'quick': add(TwoWrites(T, 9, 4))
        # compile-time ranges
        for N in ((9,) if tier == 'quick' else (6, 9, 17)):
            for sp in fseq_family(N, 'quick'):
                if sp[0] == 'int': continue
                for op in (('=', '*=') if tier == 'quick' else OPS): add(FixWrite(T, (N,), [sp], op, 'tensor'))
            add(FixWrite(T, (N,), [fs(1, N, 2)], '+=', 'scalar')); add(FixWrite(T, (N,), [fs(0, N - 1)], '-=', 'expr'))
        fam = fseq_family(4, 'quick'); fam2 = fseq_family(6, 'quick'); combos = list(itertools.product(fam, fam2)); rng.shuffle(combos)
        for sp0, sp1 in combos[:12 if tier == 'quick' else 80]:
            if sp0[0] == 'int' and sp1[0] == 'int': continue
            add(FixWrite(T, (4, 6), [sp0, sp1], rng.choice(OPS if isf else OPS[:4]), rng.choice(['tensor', 'scalar'])))
        for op in ('=', '+='):
            add(FixWrite(T, (2, 17), [('all',), fs(0, 16, 2)], op, 'tensor')); add(FixWrite(T, (2, 17), [('all',), fs(1, 17, 2)], op, 'scalar'))
            add(FixWrite(T, (3, 6), [('all',), fs(0, 6, 2)], op, 'scalar')); add(FixWrite(T, (3, 6), [fs(0, -1), fs(1, 4)], op, 'tensor'))
        add(FixWrite(T, (3, 4, 5), [fs(0, 2), ('all',), fs(1, 5, 2)], '+=', 'tensor'))
        add(FixWrite(T, (3, 4, 5), [('int', 1), ('all',), fs(0, 4)], '=', 'scalar'))
    return out


def cfgs(tier):
    c = main_cfgs(tier)
    if tier == 'quick': return c + [Cfg('avx512', 17, 'O2', ('FASTOR_USE_VECTORISED_EXPR_ASSIGN=1',))]
    return c + [Cfg('avx2', 17, 'O2', ('FASTOR_USE_VECTORISED_EXPR_ASSIGN=1',)), Cfg('avx512', 17, 'O2', ('FASTOR_USE_VECTORISED_EXPR_ASSIGN=1',))]


def bounds(tier): return {'dynamic_parents': '1-D N in {5,9}(quick) / up to 17; 2-D 4x9', 'operators': OPS, 'rhs': ['scalar', 'tensor', 'slice', 'expression', 'matvec (needs evaluation)'],
                          'histories': 'two writes through overlapping symbolic slices', 'outside': 'rank >= 3 dynamic writes; diag views'}
def mandatory(case_id, cfg_key): return False
def on_compile_fail(case, cfg, cf): return 'broken'
