"""C18 overlapping slice assignment with noalias() acts on a snapshot of the source."""
from .common import *
from .views_gen import *
from .c04 import fs, sel_of, spec_cpp
import z3, itertools

ID = 'C18'
LEVEL = 'model_checking'
EXPLANATION = ('A(r1).noalias() op= f(A(r2)) with SYMBOLIC equal-extent ranges r1, r2 on the same symbolic tensor (shifted, reversed-order with '
               'negative steps, interleaved strides, partial and perfect overlap are all instances of the symbolic parameters) and '
               'A(r) op= g(A(r)) without noalias() are executed symbolically; the specification is written over the INITIAL cells (evaluate the '
               'whole right-hand side on a snapshot, then update), so an element overwritten before it is read yields a different term and z3 '
               'returns the overlapping ranges; a second assignment through the same view object checks that the alias flag was cleared')
ASSUMPTIONS = ['positive-step ranges as in C04; negative-step ranges with non-negative first > last', 'float arithmetic uninterpreted (congruence); integer /=: source elements not in {0,-1}']


def neg_pre(V, f, l, s, N, n):
    """reversed-order range: first > last >= 0, step < 0, ceil((first-last)/(-step)) == n"""
    F, L, S = V[f], V[l], V[s]
    return [S <= -1, S >= -N, F >= 0, F <= N - 1, L >= 0, L < F, F - L > (n - 1) * (-S), F - L <= n * (-S)]


class Overlap1D(Case):
    def __init__(s, T, N, n, op, rhs, noalias=True, neg=False, twice=False):
        a = Buf('a', T, N, 'inout'); sc = [Scal(x, 'int') for x in ('f1', 'l1', 's1', 'f2', 'l2', 's2')]
        extra = []; decl = ''
        src = 'A(seq(f2,l2,s2))'
        if rhs == 'view': fr = src; sr = 't_[q]'
        elif rhs == 'scaled': fr = f'({src} + {src})'; sr = 't_[q]+t_[q]' if T in FT else f'({T})(({UT[T]})t_[q]+({UT[T]})t_[q])'
        elif rhs == 'plusB':
            extra = [Buf('b', T, n)]; decl = f'Tensor<{T},{n}> B(b);'; fr = f'({src} + B)'; sr = 't_[q]+b[q]' if T in FT else f'({T})(({UT[T]})t_[q]+({UT[T]})b[q])'
        na = '.noalias()' if noalias else ''
        stmt = f'A(seq(f1,l1,s1)){na} {op} {fr};'
        if twice: stmt = f'auto W = A(seq(f1,l1,s1)); W{na} {op} {fr}; W = {T}(7);'
        k = f'Tensor<{T},{N}> A(a); {decl} {stmt} ' + copy_out('A', 'a', N)
        nf = (lambda v: v) if neg else (lambda v: norm_c(v, N))
        r = (f'long F1={nf("f1")}; long F2={nf("f2")}; {T} t_[{n}]; for(int q=0;q<{n};++q) t_[q]=a[F2+q*s2]; '
             f'for(int q=0;q<{n};++q) {{ ' + apply_op(T, op, 'a[F1+q*s1]', sr) + ' }' + (f' for(int q=0;q<{n};++q) a[F1+q*s1]=({T})7;' if twice else ''))
        def pre(V):
            if neg: cs = neg_pre(V, 'f1', 'l1', 's1', N, n) + neg_pre(V, 'f2', 'l2', 's2', N, n)
            else: cs = seq_pre(V, 'f1', 'l1', 's1', N, n) + seq_pre(V, 'f2', 'l2', 's2', N, n)
            if not noalias: cs += [V['f1'] == V['f2'], V['l1'] == V['l2'], V['s1'] == V['s2']]
            if T in IT and op == '/=':
                w = CT[T][1]
                for i in range(N): cs += [V.el('a', i) != 0, V.el('a', i) != mask(-1, w)]
            return cs
        Case.__init__(s, f'ov1{"n" if neg else ""}{"" if noalias else "s"}{"t" if twice else ""}_{SHORT[T]}_{N}_{n}_{OPN[op]}_{rhs}', [a] + extra + sc, k, r,
                      desc=f'{stmt} on Tensor<{T},{N}>, extent {n}', pre=pre)
        s.dom = 'uf' if T in FT else 'bits'; s.uf_int = T in IT; s.max_paths = 600; s.timeout = 30; s.weight = 10


class Overlap2D(Case):
    def __init__(s, T, M, N, m, n, op, noalias=True):
        a = Buf('a', T, M * N, 'inout')
        sc = [Scal(x, 'int') for x in ('f1', 'l1', 's1', 'g1', 'h1', 't1', 'f2', 'l2', 's2', 'g2', 'h2', 't2')]
        na = '.noalias()' if noalias else ''
        k = f'Tensor<{T},{M},{N}> A(a); A(seq(f1,l1,s1),seq(g1,h1,t1)){na} {op} A(seq(f2,l2,s2),seq(g2,h2,t2)); ' + copy_out('A', 'a', M * N)
        r = (f'long F1={norm_c("f1", M)}, G1={norm_c("g1", N)}, F2={norm_c("f2", M)}, G2={norm_c("g2", N)}; {T} t_[{m * n}]; '
             f'for(int p=0;p<{m};++p) for(int q=0;q<{n};++q) t_[p*{n}+q]=a[(F2+p*s2)*{N}+G2+q*t2]; '
             f'for(int p=0;p<{m};++p) for(int q=0;q<{n};++q) {{ ' + apply_op(T, op, f'a[(F1+p*s1)*{N}+G1+q*t1]', f't_[p*{n}+q]') + ' }')
        def pre(V):
            cs = (seq_pre(V, 'f1', 'l1', 's1', M, m) + seq_pre(V, 'g1', 'h1', 't1', N, n) + seq_pre(V, 'f2', 'l2', 's2', M, m) + seq_pre(V, 'g2', 'h2', 't2', N, n))
            if not noalias: cs += [V[x + '1'] == V[x + '2'] for x in 'flsght']
            if T in IT and op == '/=':
                w = CT[T][1]
                for i in range(M * N): cs += [V.el('a', i) != 0, V.el('a', i) != mask(-1, w)]
            return cs
        Case.__init__(s, f'ov2{"" if noalias else "s"}_{SHORT[T]}_{M}x{N}_{m}x{n}_{OPN[op]}', [a] + sc, k, r, desc=f'2-D overlapping view assignment {op} on {M}x{N}, extent {m}x{n} {T}', pre=pre)
        s.dom = 'uf' if T in FT else 'bits'; s.uf_int = T in IT; s.max_paths = 600; s.timeout = 30; s.weight = 40; s.budget = 300


class FixSelf2D(Case):
    """A(all, fseq<f,l>) = g(A(all, fseq<f,l>)) without noalias (perfect overlap), expression right-hand side, widths with SIMD tails"""
    def __init__(s, T, M, N, f, l, op):
        a = Buf('a', T, M * N, 'inout'); v = f'A(all,fseq<{f},{l}>())'
        k = f'Tensor<{T},{M},{N}> A(a); {v} {op} {v} + {v}; ' + copy_out('A', 'a', M * N)
        dbl = 't_+t_' if T in FT else f'({T})(({UT[T]})t_+({UT[T]})t_)'
        r = f'for(int i=0;i<{M};++i) for(int j={f};j<{l};++j) {{ {T} t_ = a[i*{N}+j]; ' + apply_op(T, op, f'a[i*{N}+j]', dbl) + ' }'
        Case.__init__(s, f'ovself2_{SHORT[T]}_{M}x{N}_{f}_{l}_{OPN[op]}', [a], k, r, desc=f'{v} {op} {v}+{v} on {M}x{N} {T}')
        s.dom = 'uf' if T in FT else 'bits'


class DynSelf2D(Case):
    """A(all, seq(f,l)) = g(A(all, seq(f,l))) without noalias on the run-time 2-D view (perfect overlap), widths with SIMD tails"""
    def __init__(s, T, M, N, f, l, op):
        a = Buf('a', T, M * N, 'inout'); v = f'A(all,seq({f},{l}))'
        k = f'Tensor<{T},{M},{N}> A(a); {v} {op} {v} + {v}; ' + copy_out('A', 'a', M * N)
        dbl = 't_+t_' if T in FT else f'({T})(({UT[T]})t_+({UT[T]})t_)'
        r = f'for(int i=0;i<{M};++i) for(int j={f};j<{l};++j) {{ {T} t_ = a[i*{N}+j]; ' + apply_op(T, op, f'a[i*{N}+j]', dbl) + ' }'
        Case.__init__(s, f'ovdself2_{SHORT[T]}_{M}x{N}_{f}_{l}_{OPN[op]}', [a], k, r, desc=f'{v} {op} {v}+{v} on {M}x{N} {T}')
        s.dom = 'uf' if T in FT else 'bits'


class FixOverlap(Case):
    """compile-time ranges (concrete), data symbolic"""
    def __init__(s, T, N, sp1, sp2, op, noalias=True):
        a = Buf('a', T, N, 'inout'); i1, _ = sel_of(sp1, N); i2, _ = sel_of(sp2, N); n = len(i1)
        na = '.noalias()' if noalias else ''
        k = f'Tensor<{T},{N}> A(a); A({spec_cpp(sp1)}){na} {op} A({spec_cpp(sp2)}); ' + copy_out('A', 'a', N)
        r = f'{T} t_[{n}]; ' + ' '.join(f't_[{q}]=a[{j}];' for q, j in enumerate(i2)) + ' ' + ' '.join('{ ' + apply_op(T, op, f'a[{j}]', f't_[{q}]') + ' }' for q, j in enumerate(i1))
        def pre(V):
            if T in IT and op == '/=':
                w = CT[T][1]; return [c for i in range(N) for c in (V.el('a', i) != 0, V.el('a', i) != mask(-1, w))]
            return []
        nm = lambda sp: '_'.join(str(x) for x in sp[1:])
        Case.__init__(s, f'ovf{"" if noalias else "s"}_{SHORT[T]}_{N}_{nm(sp1)}__{nm(sp2)}_{OPN[op]}', [a], k, r, desc=f'A({spec_cpp(sp1)}){na} {op} A({spec_cpp(sp2)}) on Tensor<{T},{N}>', pre=pre)
        s.dom = 'uf' if T in FT else 'bits'


OPS = ['=', '+=', '-=', '*=', '/=']


def cases(tier, cfg, seed):
    out = []
    TS = ['double', 'int'] if tier == 'quick' else ALLT
    for T in TS:
        for op in OPS:
            for (N, n) in ([(9, 4)] if tier == 'quick' else [(9, 4), (9, 3), (17, 8), (12, 5)]):
                if tier == 'quick' and cfg.isa != 'avx2' and op not in ('=', '+='): continue      # symbolic ranges: all operators on one ISA, = and += on the others
                if T in IT and op in ('*=', '/='): continue          # bit-blasted mul/div inside symbolic-address ite chains: fixed ranges cover them
                out.append(Overlap1D(T, N, n, op, 'view'))
                if op == '=': out.append(Overlap1D(T, N, n, op, 'scaled')); out.append(Overlap1D(T, N, n, op, 'plusB'))
                out.append(Overlap1D(T, N, n, op, 'scaled' if op == '=' else 'view', noalias=False))
            if not (T in IT and op in ('*=', '/=')) and (tier != 'quick' or cfg.isa == 'avx2' or op == '='): out.append(Overlap1D(T, 9, 4, op, 'view', neg=True))
        out.append(Overlap1D(T, 9, 3, '=', 'view', twice=True)); out.append(Overlap1D(T, 9, 3, '+=', 'view', twice=True))
        for op in (() if tier == 'quick' else OPS):
            if T in IT and op in ('*=', '/='): continue          # as in 1-D: bit-blasted mul/div inside symbolic-address ite chains; fixed ranges cover them
            out.append(Overlap2D(T, 4, 5, 2, 2, op))
            out.append(Overlap2D(T, 3, 9, 2, 4, op, noalias=False))
        if tier != 'quick': out.append(Overlap2D(T, 4, 9, 2, 4, '='))
        # compile-time ranges
        for sp1, sp2 in [(fs(0, 4), fs(1, 5)), (fs(1, 5), fs(0, 4)), (fs(0, 8, 2), fs(1, 9, 2)), (fs(2, 6), fs(2, 6)), (fs(0, 3), fs(4, 7))]:
            for op in (('=', '*=') if tier == 'quick' else OPS):
                out.append(FixOverlap(T, 9, sp1, sp2, op))
        out.append(FixOverlap(T, 9, fs(2, 6), fs(2, 6), '+=', noalias=False))
        for (f, l) in ((1, 6), (0, 7), (1, 10), (2, 19)):
            for op in ('=', '+='): out.append(FixSelf2D(T, 2, 20, f, l, op))
            out.append(DynSelf2D(T, 2, 20, f, l, '=')); out.append(DynSelf2D(T, 2, 20, f, l, '*=' if T in FT else '-='))
    return out


def cfgs(tier): return main_cfgs(tier)
def bounds(tier): return {'parents': '1-D N=9 extent 4 (quick); 2-D 4x5 / 3x9', 'outside': 'index-tensor and mask views under aliasing; rank 3'}
def mandatory(case_id, cfg_key): return False
def on_compile_fail(case, cfg, cf): return 'broken'
