"""relational harnesses for inverse / LU / solve / QR (C10-C13): outputs are checked against A*X=I, L*U=P*A, A*x=b, Q*R=A ..."""
from .common import *
import z3, struct, itertools
import numpy as np


class FM:
    """matrix of real-domain FV values with the domain's arithmetic"""
    def __init__(s, dom, rows): s.dom = dom; s.rows = rows
    def __getitem__(s, ij): return s.rows[ij[0]][ij[1]]
    @property
    def m(s): return len(s.rows)
    @property
    def n(s): return len(s.rows[0])


def cst(dom, w, v): return FV(w, r=z3.RealVal(v))


def dot(dom, xs, ys, w):
    acc = None
    for x, y in zip(xs, ys):
        # skip structural zeros (exact constants)
        if dom.is_const(x) and x.r.as_fraction() == 0: continue
        if dom.is_const(y) and y.r.as_fraction() == 0: continue
        t = dom.bin('fmul', x, y)
        acc = t if acc is None else dom.bin('fadd', acc, t)
    return acc if acc is not None else cst(dom, w, 0)


def matmul_fm(dom, A, B, w):
    return FM(dom, [[dot(dom, [A[i, k] for k in range(A.n)], [B[k, j] for k in range(B.m)], w) for j in range(B.n)] for i in range(A.m)])


class Lin(Case):
    """kernel-only case with relational post-conditions"""
    fresh = True
    def __init__(s, cid, T, args, ksrc, desc, div='pure', nameall=True):
        Case.__init__(s, cid, args, ksrc, None, desc=desc)
        s.dom = 'real'; s.div = div; s.nameall = nameall; s.T = T; s.w = CT[T][1]; s.timeout = 20; s.max_paths = 200; s.budget = 400
        s.val_style = 'nz'; s.api_default = (div == 'pure')   # purified+named obligations: the default (incremental) solver finds the linear certificate

    def mat(s, kp, name, m, n, symbolic_in=False):
        a = [x for x in s.args if x.name == name][0]; rd = Reader(kp.dom)
        if symbolic_in:
            return FM(kp.dom, [[FV(a.w, r=(z3.RealVal(a.fixed[i * n + j]) if (i * n + j) in a.fixed else z3.Real(a.var(i * n + j)))) for j in range(n)] for i in range(m)])
        rows = []
        for i in range(m):
            row = []
            for j in range(n):
                v = rd.elem(kp.bufs[name], a, i * n + j)
                if isinstance(v, Undef) or isinstance(v, CondVal): row.append(None)
                else: row.append(rd.as_float(v, a.w))
            rows.append(row)
        return FM(kp.dom, rows)

    def hyps(s, kp):
        h = []
        for t in kp.dom.nz:
            if isinstance(t, tuple): h.append(t[1] >= 0)
            else: h.append(t != 0)
        return h

    def eqs(s, kp, triples):
        """triples: (label, lhs FV|None, rhs FV)"""
        obls = []; H = s.hyps(kp); dom = kp.dom
        for label, l, r in triples:
            if l is None: obls.append(Obl(label, z3.BoolVal(False), kp.pc, note='element unwritten', kind='unwritten')); continue
            nameall = dom.nameall; dom.nameall = False
            g = dom.eq(l, r); dom.nameall = nameall
            obls.append(Obl(label, g, kp.pc, hyp=H))
        return obls

    def structure(s, kp, M, pred, value, label):
        """entries selected by pred must be the exact constant `value`"""
        obls = []
        for i in range(M.m):
            for j in range(M.n):
                if not pred(i, j): continue
                v = M[i, j]
                if v is None: obls.append(Obl(f'{label}[{i},{j}]', z3.BoolVal(False), kp.pc, note='unwritten', kind='unwritten')); continue
                ok = kp.dom.is_const(v) and v.r.as_fraction() == value
                obls.append(Obl(f'{label}[{i},{j}]=={value}', None if ok else (v.r == value if v.den is None else v.r == value * v.den), kp.pc, trivially=True if ok else None, hyp=s.hyps(kp), kind='structure'))
        return obls

    # native replay helpers
    def nat_mats(s, inp, rk):
        out = {}
        for a in s.args:
            if isinstance(a, Scal): continue
            raw = inp[a.name] if a.role == 'in' else rk['bufs'][a.name]
            if isinstance(raw, str): raw = bytes.fromhex(raw)
            if a.kind == 'f': out[a.name] = np.frombuffer(raw, dtype=np.float32 if a.w == 32 else np.float64).astype(np.float64)
            else: out[a.name] = np.frombuffer(raw, dtype=np.int32 if a.w == 32 else np.int64)
        return out

    def tol(s): return 1e-3 if s.w == 32 else 1e-8

    def bound(s, n, cond=1.0, c=30.0):
        """the property's error bound c*n*eps*cond for native replays of solver counterexamples"""
        eps = 2.0 ** -23 if s.w == 32 else 2.0 ** -52
        return c * n * eps * max(float(cond), 1.0)


def out_mats(names, T, n, m=None):
    return [Buf(nm, T, n * (m or n), 'out') for nm in names]
