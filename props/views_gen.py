"""shared generators for view harnesses (C04, C05, C18)"""
from .common import *
from .einsum_gen import strides
import z3

UT = {'int': 'unsigned', 'long': 'unsigned long'}


def norm_c(v, N): return f'({v}<0 ? {v}+{N}+1 : {v})'


def seq_pre(V, f, l, s, N, n, smax=None):
    """admissible dynamic range on an axis of extent N selecting exactly n elements (documented normalisation: v<0 -> v+N+1)"""
    F, L, S = V[f], V[l], V[s]
    Fn = z3.If(F < 0, F + (N + 1), F); Ln = z3.If(L < 0, L + (N + 1), L)
    cs = [S >= 1, S <= (smax or N), F >= -(N + 1), F <= N, L >= -(N + 1), L <= N, Fn >= 0, Fn <= Ln, Ln <= N]
    cs.append(z3.Not(z3.And(F < 0, L >= 0)))   # first negative with last non-negative: 1-D and n-D views disagree; outside the documented encodings
    # size = ceil((Ln-Fn)/S) == n   <=>  (n-1)*S < Ln-Fn <= n*S   (n >= 1)
    cs += [Ln - Fn > (n - 1) * S, Ln - Fn <= n * S]
    return cs


def apply_op(T, op, lhs, rhs):
    """C++ statement lhs op= rhs with wrap-around for ints"""
    if op == '=': return f'{lhs} = {rhs};'
    if T in IT and op in ('+=', '-=', '*='): return f'{lhs} = ({T})(({UT[T]}){lhs} {op[0]} ({UT[T]})({rhs}));'
    return f'{lhs} {op} {rhs};'


OPN = {'=': 'as', '+=': 'pe', '-=': 'me', '*=': 'te', '/=': 'de'}
