"""C09 lazy linear-algebra operators give the same result as their eager counterparts."""
from .common import *
import itertools, random

ID = 'C09'
LEVEL = 'translation_validation'
EXPLANATION = ('program pairs generated from one expression: the lazy spelling (%, inv, det, trans, cof, adj, norm, trace inside arithmetic, all '
               'five assignment operators, destination reused element-wise) and the eager spelling (matmul, inverse, determinant, transpose ... '
               'with explicit temporaries) are both compiled from the real headers and executed symbolically on shared symbolic inputs; z3 decides '
               'that the two programs leave the same destination tensor for all operand values: exact-real identity (closed-form inverses as '
               'rational functions) plus bounded rounding depth, which also covers the re-association chosen for chains of %')
ASSUMPTIONS = ['floating results compared as exact reals (re-association of product chains is allowed by the property); rounding depth bounded',
               'inverse/determinant-based programs: same closed form on both sides, divisors non-zero']
TECHNIQUE = 'translation validation by symbolic execution of both spellings + SMT equivalence (z3, QF_NRA)'


class Pair(Case):
    def __init__(s, name, T, bufs, decl, lazy, eager, dshape, op='='):
        sz = prod(dshape); tt = f'Tensor<{T},{dims(*dshape)}>'
        d = Buf('d', T, sz, 'inout')
        k = f'{decl} {tt} D(d); D {op} {lazy}; ' + copy_out('D', 'd', sz)
        r = f'{decl} {tt} D(d); {eager.replace("@OP", op)} ' + copy_out('D', 'd', sz)
        Case.__init__(s, f'le_{SHORT[T]}_{name}_{OPNAME[op]}', bufs + [d], k, r, desc=f'D {op} {lazy}   vs   {eager.replace("@OP", op)}')
        s.dom = 'real'; s.div = 'plain'; s.timeout = 30


OPNAME = {'=': 'as', '+=': 'pe', '-=': 'me', '*=': 'te', '/=': 'de'}


def T2(T, m, n): return f'Tensor<{T},{m},{n}>'


def cases(tier, cfg, seed):
    rng = random.Random(seed + 9); out = []
    TS = ['double', 'float'] if tier != 'quick' else ['double']
    OPS = ['=', '+=', '-=', '*=', '/=']
    for T in TS:
        for n in ((2, 3) if tier == 'quick' else (2, 3, 4)):
            A = Buf('a', T, n * n); B = Buf('b', T, n * n); C = Buf('c', T, n * n)
            decl = f'{T2(T, n, n)} A(a), B(b), C(c);'
            nn = (n, n)
            for op in OPS:
                out.append(Pair(f'mm{n}', T, [A, B, C], decl, 'A % B', f'{T2(T, n, n)} t_ = matmul(A,B); D @OP t_;', nn, op))
                if op in ('=', '+=') or tier != 'quick':
                    out.append(Pair(f'mmadd{n}', T, [A, B, C], decl, '2*A + (B % C) - trans(A)', f'{T2(T, n, n)} t_ = matmul(B,C); {T2(T, n, n)} u_ = transpose(A); D @OP 2*A + t_ - u_;', nn, op))
            out.append(Pair(f'tmm{n}', T, [A, B, C], decl, 'trans(A) % B', f'{T2(T, n, n)} u_ = transpose(A); {T2(T, n, n)} t_ = matmul(u_,B); D @OP t_;', nn))
            out.append(Pair(f'mmt{n}', T, [A, B, C], decl, 'A % trans(B)', f'{T2(T, n, n)} u_ = transpose(B); {T2(T, n, n)} t_ = matmul(A,u_); D @OP t_;', nn))
            out.append(Pair(f'alias{n}', T, [A, B, C], decl, '2*D + A % B', f'{T2(T, n, n)} t_ = matmul(A,B); D @OP 2*D + t_;', nn))
            out.append(Pair(f'alias{n}', T, [A, B, C], decl, 'D - A % B', f'{T2(T, n, n)} t_ = matmul(A,B); D @OP D - t_;', nn, '+='))
            # destination reused element-wise next to an evaluation-requiring node, in nested and compound forms
            out.append(Pair(f'aliasDD{n}', T, [A, B, C], decl, 'A % B + D*D', f'{T2(T, n, n)} t_ = matmul(A,B); {T2(T, n, n)} u_ = D*D; D @OP t_ + u_;', nn, '+='))
            out.append(Pair(f'aliasnest{n}', T, [A, B, C], decl, '2 + (A % B + D)', f'{T2(T, n, n)} t_ = matmul(A,B); {T2(T, n, n)} u_ = D; D @OP 2 + (t_ + u_);', nn, '+='))
            out.append(Pair(f'aliassm{n}', T, [A, B, C], decl, '3 - (D + A % B)', f'{T2(T, n, n)} t_ = matmul(A,B); {T2(T, n, n)} u_ = D; D @OP 3 - (u_ + t_);', nn, '-='))
            out.append(Pair(f'aliasas{n}', T, [A, B, C], decl, 'A % B + D*D', f'{T2(T, n, n)} t_ = matmul(A,B); {T2(T, n, n)} u_ = D*D; D @OP t_ + u_;', nn, '='))
            out.append(Pair(f'sml{n}', T, [A, B, C], decl, '2 - (A % B)', f'{T2(T, n, n)} t_ = matmul(A,B); D @OP 2 - t_;', nn, '+='))
            out.append(Pair(f'sml{n}', T, [A, B, C], decl, '2 - trans(A)', f'{T2(T, n, n)} t_ = transpose(A); D @OP 2 - t_;', nn, '-='))
            out.append(Pair(f'chsub{n}', T, [A, B, C], decl, 'A % B % C', f'{T2(T, n, n)} t_ = matmul(A,B); {T2(T, n, n)} u_ = matmul(t_,C); D @OP u_;', nn, '-='))
            out.append(Pair(f'det{n}', T, [A, B, C], decl, 'det(A) * B', f'{T} s_ = determinant(A); D @OP s_ * B;', nn))
            out.append(Pair(f'trace{n}', T, [A, B, C], decl, 'trace(A) * B + C', f'{T} s_ = trace(A); D @OP s_ * B + C;', nn))
            out.append(Pair(f'inv{n}', T, [A, B, C], decl, 'inv(A)', f'{T2(T, n, n)} t_ = inverse(A); D @OP t_;', nn))
            out.append(Pair(f'invmm{n}', T, [A, B, C], decl, 'inv(A) % B + C', f'{T2(T, n, n)} t_ = inverse(A); {T2(T, n, n)} u_ = matmul(t_,B); D @OP u_ + C;', nn))
            out.append(Pair(f'invpe{n}', T, [A, B, C], decl, 'inv(A)', f'{T2(T, n, n)} t_ = inverse(A); D @OP t_;', nn, '+='))
            out.append(Pair(f'cof{n}', T, [A, B, C], decl, 'cof(A) + B', f'{T2(T, n, n)} t_ = cofactor(A); D @OP t_ + B;', nn))
            out.append(Pair(f'adj{n}', T, [A, B, C], decl, 'adj(A) - B', f'{T2(T, n, n)} t_ = adjoint(A); D @OP t_ - B;', nn))
        # chains of % with every extent pattern from a small set: the library may re-associate, the value must not change
        exts = [1, 2, 3, 5] if tier != 'quick' else [1, 2, 3]
        for L in ((3, 4) if tier == 'quick' else (3, 4, 5)):
            pats = list(itertools.product(exts, repeat=L + 1)); rng.shuffle(pats)
            for e in pats[:10 if tier == 'quick' else 60]:
                names = 'abcef'[:L]
                bufs = [Buf(nm, T, e[i] * e[i + 1]) for i, nm in enumerate(names)]
                decl = ' '.join(f'{T2(T, e[i], e[i + 1])} {nm.upper()}({nm});' for i, nm in enumerate(names))
                lazy = ' % '.join(nm.upper() for nm in names)
                eager = f'{T2(T, e[0], e[2])} t1_ = matmul(A,B); '
                prev = 't1_'
                for i in range(2, L):
                    eager += f'{T2(T, e[0], e[i + 1])} t{i}_ = matmul({prev},{names[i].upper()}); '; prev = f't{i}_'
                eager += f'D @OP {prev};'
                out.append(Pair('chain' + 'x'.join(map(str, e)), T, bufs, decl, lazy, eager, (e[0], e[L])))
        # compound assignment of a chain, on extents where the cost model re-associates (rows(A) > cols(last)) and where it does not
        for e, op in (((3, 2, 2, 1), '-='), ((3, 2, 3, 2), '-='), ((2, 3, 2, 3), '-='), ((3, 2, 2, 1), '+='), ((3, 1, 2, 2), '+='), ((3, 2, 2, 2, 1), '-=')):
            L = len(e) - 1; names = 'abcef'[:L]
            bufs = [Buf(nm, T, e[i] * e[i + 1]) for i, nm in enumerate(names)]
            decl = ' '.join(f'{T2(T, e[i], e[i + 1])} {nm.upper()}({nm});' for i, nm in enumerate(names))
            eager = f'{T2(T, e[0], e[2])} t1_ = matmul(A,B); '; prev = 't1_'
            for i in range(2, L):
                eager += f'{T2(T, e[0], e[i + 1])} t{i}_ = matmul({prev},{names[i].upper()}); '; prev = f't{i}_'
            out.append(Pair('chainc' + 'x'.join(map(str, e)), T, bufs, decl, ' % '.join(nm.upper() for nm in names), eager + f'D @OP {prev};', (e[0], e[L]), op))
    ids = {}; res = []
    for c in out:
        if c.id in ids: c.id = c.id + f'_{len(ids)}'
        ids[c.id] = 1; res.append(c)
    return res


def cfgs(tier): return main_cfgs(tier)
def bounds(tier): return {'operand_sizes': '2x2, 3x3 (quick) + 4x4', 'chains': '3-4 (quick) / 3-5 factors, extents from {1,2,3(,5)}', 'outside': 'lazy solve; ctrans on complex; depth > 2 trees'}
def mandatory(case_id, cfg_key): return False
def on_compile_fail(case, cfg, cf): return 'broken'
