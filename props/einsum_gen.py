"""generator for einsum harnesses: any number of operands, reference = one loop nest over all distinct indices"""
from .common import *
import itertools


def strides(ext):
    st = [1] * len(ext)
    for i in range(len(ext) - 2, -1, -1): st[i] = st[i + 1] * ext[i + 1]
    return st


def free_indices(lists):
    """non-repeated indices in order of first appearance"""
    cnt = {}
    for l in lists:
        for i in l: cnt[i] = cnt.get(i, 0) + 1
    out = []
    for l in lists:
        for i in l:
            if cnt[i] == 1 and i not in out: out.append(i)
    return out


class Ein(Case):
    def __init__(s, T, lists, ext, call=None, tag='es', out_idx=None, extra_tmpl='', fname='einsum'):
        """lists: index lists per operand; ext: dict index -> extent; out_idx: explicit output order (OIndex)"""
        s.T = T; s.lists = lists; s.ext = ext
        names = 'abcefghk'[:len(lists)]
        free = free_indices(lists) if out_idx is None else list(out_idx)
        s.free = free
        oext = [ext[i] for i in free]; osz = prod(oext) if oext else 1
        args = [Buf(nm, T, prod([ext[i] for i in l])) for nm, l in zip(names, lists)]
        o = Buf('o', T, osz, 'out'); d = Buf('d', 'int', 1 + max(len(free), 1), 'out')
        decl = ' '.join(f'Tensor<{T},{dims(*[ext[i] for i in l])}> {nm.upper()}({nm});' for nm, l in zip(names, lists))
        tl = ','.join('Index<' + ','.join(map(str, l)) + '>' for l in lists)
        if out_idx is not None: tl += ',OIndex<' + ','.join(map(str, out_idx)) + '>'
        callexpr = call or f'{fname}<{tl}{extra_tmpl}>({",".join(n.upper() for n in names)})'
        k = (f'{decl} auto R = {callexpr}; Tensor<{T},{dims(*oext) if oext else 1}> *chk_ = nullptr; (void)chk_; '
             f'd[0]=(int)R.rank(); for(int q=0;q<{max(len(free), 1)};++q) d[1+q] = q<(int)R.rank() ? (int)R.dimension(q) : 1; '
             f'for(int q=0;q<{osz} && q<(int)R.size();++q) o[q]=R.data()[q];') if oext else (
             f'{decl} auto R = {callexpr}; d[0]=0; d[1]=1; o[0]=fsv_scalar(R);')
        # reference loop nest
        allidx = []
        for l in lists:
            for i in l:
                if i not in allidx: allidx.append(i)
        summed = [i for i in allidx if i not in free]
        ost = strides(oext)
        def off(l):
            st = strides([ext[i] for i in l]); return '+'.join(f'i{i}*{st[p]}' for p, i in enumerate(l)) or '0'
        oo = '+'.join(f'i{i}*{ost[p]}' for p, i in enumerate(free)) or '0'
        term = '*'.join(f'{nm}[{off(l)}]' for nm, l in zip(names, lists))
        if T in IT:
            U = {'int': 'unsigned', 'long': 'unsigned long'}[T]
            term = '*'.join(f'({U}){nm}[{off(l)}]' for nm, l in zip(names, lists))
            body = f's=({T})(({U})s+{term});'
        else: body = f's+={term};'
        loops_f = ''.join(f'for(int i{i}=0;i{i}<{ext[i]};++i{i}) ' for i in free)
        loops_s = ''.join(f'for(int i{i}=0;i{i}<{ext[i]};++i{i}) ' for i in summed)
        r = (f'd[0]={len(free)}; ' + ' '.join(f'd[{1 + q}]={e};' for q, e in enumerate(oext or [1])) +
             f' {loops_f}{{ {T} s=0; {loops_s}{{ {body} }} o[{oo}]=s; }}')
        sid = '_'.join(''.join(map(str, l)) for l in lists) + ('_o' + ''.join(map(str, out_idx)) if out_idx is not None else '')
        eid = 'x'.join(str(ext[i]) for i in allidx)
        # topology class: some operand shares no index with the operands before it (disconnected prefix)
        seen_ = set(lists[0]); dp = False
        for l in lists[1:]:
            if len(lists) > 2 and not (set(l) & seen_): dp = True
            seen_ |= set(l)
        Case.__init__(s, f'{tag}_{SHORT[T]}_{sid}_{eid}' + ('_dp' if dp else ''), args + [o, d], k, r, desc=f'{callexpr} extents {ext}')
        s.dom = dom_for(T); s.nsum = prod([ext[i] for i in summed]) if summed else 1
        s.depth_limit = 2 * s.nsum * len(lists) + 4


def pair_patterns(max_rank):
    """all ways of identifying indices between two index lists (ranks 1..max_rank), up to renaming"""
    out = []
    for ra in range(1, max_rank + 1):
        for rb in range(1, max_rank + 1):
            la = list(range(ra))
            for c in range(0, min(ra, rb) + 1):
                for pa in itertools.combinations(range(ra), c):
                    for pb in itertools.permutations(range(rb), c):
                        lb = [None] * rb
                        for x, y in zip(pa, pb): lb[y] = la[x]
                        nxt = ra
                        for q in range(rb):
                            if lb[q] is None: lb[q] = nxt; nxt += 1
                        out.append((la, lb))
    return out


def assign_extents(lists, palette):
    ext = {}; k = 0
    for l in lists:
        for i in l:
            if i not in ext: ext[i] = palette[k % len(palette)]; k += 1
    return ext
