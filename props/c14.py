"""C14 permute / permutation / transpose / trans / ctrans move every element to its permuted position."""
from .common import *
from .einsum_gen import strides
import itertools, random

ID = 'C14'
LEVEL = 'model_checking'
EXPLANATION = ('permute<Index<p...>>, permutation<>, transpose, trans and ctrans are instantiated for every axis permutation of the ranks in the '
               'bound on shapes with pairwise distinct extents, compiled per ISA/C++ level and executed symbolically; this is pure data movement, '
               'so z3 decides bit-for-bit equality of every output element (and of the rank/extents recorded from the returned type) with the '
               'index-mapping loop nest; round trips and expression arguments are covered by the same harnesses')
ASSUMPTIONS = ['permutation<> may realise p or its inverse (element-wise disjunction, extents included)']


def inv(p):
    q = [0] * len(p)
    for i, x in enumerate(p): q[x] = i
    return q


def ref_permute(T, shape, p, src='a', expr=None):
    """out(i[p[0]],...,i[p[k]]) = A(i[0],...,i[k]); out extents shape[p[n]]"""
    n = len(shape); oshape = [shape[p[k]] for k in range(n)]
    ist = strides(shape); ost = strides(oshape)
    loops = ''.join(f'for(int i{k}=0;i{k}<{shape[k]};++i{k}) ' for k in range(n))
    io = '+'.join(f'i{k}*{ist[k]}' for k in range(n)); oo = '+'.join(f'i{p[k]}*{ost[k]}' for k in range(n))
    val = f'{src}[{io}]' if expr is None else expr.replace('@', io)
    d = f'd[0]={n}; ' + ' '.join(f'd[{1 + k}]={oshape[k]};' for k in range(n))
    return f'{d} {loops} o[{oo}] = {val};', oshape


def record(n, sz): return (f'd[0]=(int)R.rank(); for(int q=0;q<{n};++q) d[1+q] = q<(int)R.rank() ? (int)R.dimension(q) : -1; '
                           f'for(int q=0;q<{sz} && q<(int)R.size();++q) o[q]=R.data()[q];')


class Perm(Case):
    def __init__(s, T, shape, p, kind):
        n = len(shape); sz = prod(shape); tt = f'Tensor<{cxx(T)},{dims(*shape)}>'
        a = Buf('a', T, sz); o = Buf('o', T, sz, 'out'); d = Buf('d', 'int', 1 + n, 'out'); args = [a, o, d]
        idx = 'Index<' + ','.join(map(str, p)) + '>'
        r, oshape = ref_permute(T, shape, p)
        alt = None
        if kind == 'permute': k = f'{tt} A(a); auto R = permute<{idx}>(A); ' + record(n, sz)
        elif kind == 'permutation':
            k = f'{tt} A(a); auto R = permutation<{idx}>(A); ' + record(n, sz)
            alt, _ = ref_permute(T, shape, inv(p))
        elif kind == 'expr':
            b = Buf('b', T, sz); args = [a, b, o, d]
            k = f'{tt} A(a), B(b); auto R = permute<{idx}>(A+B); ' + record(n, sz)
            add = 'a[@]+b[@]' if T in FT else '({T})(({U})a[@]+({U})b[@])'.format(T=T, U={'int': 'unsigned', 'long': 'unsigned long'}.get(T))
            r, _ = ref_permute(T, shape, p, expr=add)
        elif kind == 'roundtrip':
            iidx = 'Index<' + ','.join(map(str, inv(p))) + '>'
            k = f'{tt} A(a); auto R = permute<{iidx}>(permute<{idx}>(A)); ' + record(n, sz)
            r, _ = ref_permute(T, shape, list(range(n)))
        Case.__init__(s, f'{dict(permute="perm", permutation="legacy", expr="pexpr", roundtrip="round")[kind]}_{SHORT[T]}_{"x".join(map(str, shape))}_p{"".join(map(str, p))}', args, k, r, desc=f'{kind}<{idx}> {tt}')
        if alt: s.alt_ref_src = alt
        s.dom = 'bits'


class Trans(Case):
    def __init__(s, T, M, N, kind):
        sz = M * N; tt = f'Tensor<{cxx(T)},{M},{N}>'
        a = Buf('a', T, sz); o = Buf('o', T, sz, 'out'); d = Buf('d', 'int', 3, 'out')
        call = {'transpose': 'transpose(A)', 'trans': f'Tensor<{cxx(T)},{N},{M}>(trans(A))', 'ctrans': f'Tensor<{cxx(T)},{N},{M}>(ctrans(A))', 'ctranspose': 'ctranspose(A)'}[kind]
        k = f'{tt} A(a); auto R = {call}; ' + record(2, sz)
        if T in ('cfloat', 'cdouble'):
            conj = kind.startswith('c')
            body = f'o[j*{M}+i] = ' + ('std::conj(a[i*%d+j]);' % N if conj else 'a[i*%d+j];' % N)
        else: body = f'o[j*{M}+i] = a[i*{N}+j];'
        r = f'd[0]=2; d[1]={N}; d[2]={M}; for(int i=0;i<{M};++i) for(int j=0;j<{N};++j) {body}'
        Case.__init__(s, f'{kind}_{SHORT[T]}_{M}x{N}', [a, o, d], k, r, desc=f'{kind} {tt}')
        s.dom = 'bits'


class TransAssign(Case):
    """D op= trans(A) / ctrans(A) for the five assignment operators (each has its own assign_* overload)"""
    def __init__(s, T, M, N, kind, op):
        sz = M * N; cplx = T in ('cfloat', 'cdouble')
        a = Buf('a', T, sz); d = Buf('d', T, sz, 'inout')
        k = f'Tensor<{cxx(T)},{M},{N}> A(a); Tensor<{cxx(T)},{N},{M}> D(d); D {op} {kind}(A); ' + copy_out('D', 'd', sz)
        v = f'std::conj(a[i*{N}+j])' if (cplx and kind == 'ctrans') else f'a[i*{N}+j]'
        r = f'for(int i=0;i<{M};++i) for(int j=0;j<{N};++j) d[j*{M}+i] {op} {v};'
        Case.__init__(s, f'{kind}asg_{SHORT[T]}_{M}x{N}_{ {"=": "as", "+=": "pe", "-=": "me"}[op]}', [a, d], k, r, desc=f'D {op} {kind}(A) {M}x{N} {T}')
        s.dom = 'uf'


PAL = {2: [[3, 5], [4, 8], [9, 2], [5, 16]], 3: [[2, 3, 5], [4, 2, 9], [3, 8, 2]], 4: [[2, 3, 4, 5], [3, 2, 5, 4]], 5: [[2, 3, 2, 4, 3]], 6: [[2, 3, 2, 2, 3, 2]]}


def cases(tier, cfg, seed):
    rng = random.Random(seed + 14)
    out = []
    ranks = (2, 3, 4) if tier == 'quick' else (2, 3, 4, 5)
    for n in ranks:
        perms = list(itertools.permutations(range(n)))
        for pi, p in enumerate(perms):
            p = list(p)
            shapes = PAL[n] if tier != 'quick' else PAL[n][:2 if n < 4 else 1]
            for si, shape in enumerate(shapes):
                types = ALLT if tier != 'quick' else [['double', 'int'], ['float', 'long']][(pi + si) % 2]
                for T in types:
                    out.append(Perm(T, shape, p, 'permute'))
                    if (pi + si) % 3 == 0 or tier != 'quick': out.append(Perm(T, shape, p, 'permutation'))
                    if (pi + si) % 4 == 1: out.append(Perm(T, shape, p, 'expr'))
                    if (pi + si) % 4 == 2: out.append(Perm(T, shape, p, 'roundtrip'))
    if tier != 'quick':
        perms6 = list(itertools.permutations(range(6))); rng.shuffle(perms6)
        for p in perms6[:30]: out.append(Perm('double', PAL[6][0], list(p), 'permute'))
    B = 9 if tier == 'quick' else 17
    for M in range(1, B + 1):
        for N in range(1, B + 1):
            if tier == 'quick' and (M * 3 + N) % 3 and not (M in (4, 8) and N in (4, 8)): continue
            for T in (ALLT if tier != 'quick' else [['double', 'int'], ['float', 'long']][(M + N) % 2]):
                out.append(Trans(T, M, N, 'transpose'))
                if (M + N) % 4 == 0: out.append(Trans(T, M, N, 'trans'))
    for (M, N) in [(2, 2), (3, 4), (4, 4), (5, 3)]:
        for T in ('cdouble', 'cfloat'):
            out.append(Trans(T, M, N, 'ctrans')); out.append(Trans(T, M, N, 'transpose'))
            for op in ('=', '+=', '-='): out.append(TransAssign(T, M, N, 'ctrans', op))
    for T in ('double', 'float'):
        for op in ('=', '+=', '-='): out.append(TransAssign(T, 3, 5, 'trans', op))
    return out


def cfgs(tier):
    c = main_cfgs(tier)
    if tier == 'quick': return c + [Cfg('avx2', 14, 'O2')]
    return c + [Cfg(i, 14, 'O2') for i in build.MAIN_ISAS] + [Cfg('avx2', 17, 'O2', ('FASTOR_TRANS_OUTER_BLOCK_SIZE=2', 'FASTOR_TRANS_INNER_BLOCK_SIZE=2'))]


def bounds(tier): return {'ranks': '2..4 all permutations' if tier == 'quick' else '2..5 all, 30 seeded of rank 6', 'transpose': 'M,N <= 9' if tier == 'quick' else 'M,N <= 17'}
def mandatory(case_id, cfg_key): return False
def on_compile_fail(case, cfg, cf): return 'broken'
