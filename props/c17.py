"""C17 triangular matrix product equals the general product of triangular operands."""
from .common import *

ID = 'C17'
LEVEL = 'model_checking'
EXPLANATION = ('tmatmul<UpLoType::X,UpLoType::Y>(A,B) for every (M,K,N) in the box and all nine tag pairs is compiled per ISA and executed '
               'symbolically with operands that are symbolic inside the tagged triangle/trapezoid and the constant 0 outside it (the '
               "property's precondition); z3 decides every element of the MxN result equal to the naive general product (bit-vectors for ints, "
               'exact reals + rounding depth for floats); the result starts uninitialised, so an unwritten structural zero is reported')
ASSUMPTIONS = ['float clause: exact-real identity + rounding depth <= 2K+2']
TAGS = ['General', 'Lower', 'Upper']


def inside(tag, i, j):
    return tag == 'General' or (tag == 'Lower' and j <= i) or (tag == 'Upper' and j >= i)


class TM(Case):
    def __init__(s, T, M, K, N, lt, rt):
        a = Buf('a', T, M * K); b = Buf('b', T, K * N); c = Buf('c', T, M * N, 'out')
        for i in range(M):
            for j in range(K):
                if not inside(lt, i, j): a.fixed[i * K + j] = 0
        for i in range(K):
            for j in range(N):
                if not inside(rt, i, j): b.fixed[i * N + j] = 0
        k = (f'Tensor<{T},{M},{K}> A(a); Tensor<{T},{K},{N}> B(b); Tensor<{T},{M},{N}> C = tmatmul<UpLoType::{lt},UpLoType::{rt}>(A,B); ' + copy_out('C', 'c', M * N))
        acc = 's+=a[i*{K}+k]*b[k*{N}+j];' if T in FT else 's=({T})(({U})s+({U})a[i*{K}+k]*({U})b[k*{N}+j]);'
        acc = acc.format(K=K, N=N, T=T, U={'int': 'unsigned', 'long': 'unsigned long'}.get(T))
        r = f'for(int i=0;i<{M};++i) for(int j=0;j<{N};++j){{ {T} s=0; for(int k=0;k<{K};++k) {acc} c[i*{N}+j]=s; }}'
        Case.__init__(s, f'tm_{SHORT[T]}_{M}_{K}_{N}_{lt[0]}{rt[0]}', [a, b, c], k, r, desc=f'tmatmul<{lt},{rt}> {T} {M}x{K}x{N}')
        s.dom = dom_for(T); s.depth_limit = 2 * K + 2


def shapes(tier):
    S = set()
    B = 4 if tier == 'quick' else 7
    for m in range(1, B + 1):
        for k in range(1, B + 1):
            for n in range(1, B + 1):
                if tier == 'quick' and (m + 2 * k + 3 * n) % 3: continue
                S.add((m, k, n))
    S |= {(5, 5, 5), (6, 6, 6), (8, 8, 8), (9, 9, 9), (5, 3, 9), (3, 5, 7), (7, 7, 2), (2, 6, 6), (6, 2, 5), (4, 4, 17), (9, 4, 5), (13, 13, 13) if tier != 'quick' else (5, 5, 5),
          (12, 12, 12) if tier != 'quick' else (6, 6, 6), (10, 7, 11) if tier != 'quick' else (3, 5, 7), (16, 16, 16) if tier != 'quick' else (8, 8, 8), (5, 9, 33) if tier != 'quick' else (5, 3, 9)}
    # rows beyond the 4-row register blocks ([M0,M1) row block of the masked kernel, M >= 20) with 2..7 remainder columns
    S |= {(20, 11, 11), (21, 12, 12), (23, 5, 13)}
    return sorted(S)


def cases(tier, cfg, seed):
    out = []
    types = ALLT
    for T in types:
        for (m, k, n) in shapes(tier):
            for lt in TAGS:
                for rt in TAGS:
                    if tier == 'quick' and T in ('long',) and (m * k * n) % 2: continue
                    if tier == 'quick' and T == 'float' and max(m, k, n) <= 4 and (m + k + n) % 2 == 0: continue
                    out.append(TM(T, m, k, n, lt, rt))
    return out


def cfgs(tier): return main_cfgs(tier)
def bounds(tier): return {'shapes': len(shapes(tier)), 'max_dim': max(max(s) for s in shapes(tier)), 'tags': '3x3', 'types': ALLT}
def mandatory(case_id, cfg_key): return False


def post_case(c, cfg, r):
    if c.dom == 'real' and r.get('depth_max', 0) > c.depth_limit: return [f'rounding depth {r["depth_max"]} exceeds 2K+2']
    return []
