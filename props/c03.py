"""C03 pairwise einsum / contraction / inner / outer / single-tensor einsum / explicit output order."""
from .common import *
from .einsum_gen import *
import random

ID = 'C03'
LEVEL = 'model_checking'
EXPLANATION = ('every way of identifying indices between two index lists (operand ranks up to the bound) is instantiated with extents that give '
               'distinct free indices distinct sizes, compiled per ISA and C++ level, and executed symbolically; the wrapper records the rank and '
               'extents of the returned type next to its data; z3 decides extents and every element equal to the generated Einstein-summation loop '
               'nest (bit-vectors for ints, exact reals + rounding depth for floats)')
ASSUMPTIONS = ['float clause: exact-real identity + rounding depth <= 2*(#summed terms)+4']


def cases(tier, cfg, seed):
    rng = random.Random(seed + 3)
    out = []; seen = set()
    def add(c):
        if c.id not in seen: seen.add(c.id); out.append(c)
    pats = pair_patterns(3 if tier == 'quick' else 4)
    if tier != 'quick':
        big = [p for p in pats if max(len(p[0]), len(p[1])) == 4]; rng.shuffle(big)
        pats = [p for p in pats if max(len(p[0]), len(p[1])) < 4] + big[:120]
    palettes = [[2, 3, 4, 5, 3, 2], [4, 2, 8, 3, 5, 2]] if tier == 'quick' else [[2, 3, 4, 5, 3, 2], [4, 2, 8, 3, 5, 2], [3, 9, 2, 4, 2, 3], [1, 4, 3, 2, 5, 1]]
    for n, (la, lb) in enumerate(pats):
        for pi, pal in enumerate(palettes):
            ext = assign_extents([la, lb], pal)
            if prod(ext.values()) > 1500: ext = assign_extents([la, lb], [2, 3, 2, 4, 3, 2])
            types = ['double', 'int'] if tier == 'quick' else ALLT
            if tier == 'quick' and (n + pi) % 3 == 0: types = ['float', 'long']
            for T in types: add(Ein(T, [la, lb], ext))
        if n % 2 == 0: add(Ein('float', [la, lb], assign_extents([la, lb], [3, 2, 8, 2, 8, 3])))
    if any(m.startswith('CONTRACT_OPT') for m in cfg.macros): out = out[::3]
    # contraction<>, inner, outer, single-tensor einsum, explicit output order
    for T in (['double', 'float', 'int'] if tier == 'quick' else ALLT):
        add(Ein(T, [[0, 1], [1, 2]], {0: 3, 1: 4, 2: 5}, tag='ct', fname='contraction'))
        add(Ein(T, [[0, 1, 2], [1, 2]], {0: 3, 1: 2, 2: 5}, tag='ct', fname='contraction'))
        add(Ein(T, [[0], [0]], {0: 7}, call='inner(A,B)', tag='inner'))
        add(Ein(T, [[0, 1], [0, 1]], {0: 3, 1: 5}, call='inner(A,B)', tag='inner'))
        # tensor / expression operand forms of inner (separate overloads)
        add(Ein(T, [[0], [0]], {0: 7}, call=f'inner(A,B+{T}(0))', tag='inner_te')); add(Ein(T, [[0], [0]], {0: 7}, call=f'inner(A+{T}(0),B)', tag='inner_et'))
        add(Ein(T, [[0, 1], [0, 1]], {0: 3, 1: 5}, call=f'inner(A+{T}(0),B+{T}(0))', tag='inner_ee'))
        add(Ein(T, [[0], [1]], {0: 3, 1: 5}, call='outer(A,B)', tag='outer'))
        add(Ein(T, [[0, 1], [2]], {0: 2, 1: 3, 2: 4}, call='outer(A,B)', tag='outer'))
        add(Ein(T, [[0, 0]], {0: 4}, tag='single'))
        add(Ein(T, [[0, 1, 1]], {0: 3, 1: 4}, tag='single'))
        add(Ein(T, [[0, 1, 0]], {0: 3, 1: 4}, tag='single'))
        if cfg.std < 17: continue   # the explicit-output form is documented as C++17 only (einsum_explicit.h)
        add(Ein(T, [[0, 1], [1, 2]], {0: 3, 1: 4, 2: 5}, out_idx=[2, 0], tag='expl'))
        add(Ein(T, [[0, 1, 2], [2]], {0: 2, 1: 3, 2: 4}, out_idx=[1, 0], tag='expl'))
        add(Ein(T, [[0, 2, 1, 2]], {0: 2, 1: 3, 2: 4}, out_idx=[1, 0], tag='expl'))
    return out


def cfgs(tier):
    c = main_cfgs(tier)
    if tier == 'quick': return c + [Cfg('avx2', 14, 'O2'), Cfg('avx2', 17, 'O2', ('CONTRACT_OPT=-1',))]
    return c + [Cfg(i, 14, 'O2') for i in build.MAIN_ISAS] + [Cfg('avx2', 17, 'O2', (f'CONTRACT_OPT={v}',)) for v in (-1, 1, 2)]


def bounds(tier): return {'operand_ranks': 3 if tier == 'quick' else 4, 'patterns': len(pair_patterns(3 if tier == 'quick' else 4)),
                          'outside': 'rank-4 patterns beyond the seeded 120; repeated index inside one operand of a two-operand einsum'}
def mandatory(case_id, cfg_key): return False
def on_compile_fail(case, cfg, cf): return 'broken'


def post_case(c, cfg, r):
    if c.dom == 'real' and r.get('depth_max', 0) > c.depth_limit: return [f'rounding depth {r["depth_max"]} exceeds {c.depth_limit}']
    return []
