"""C15 multi-tensor einsum is independent of the contraction order the cost model picks."""
from .common import *
from .einsum_gen import *
import itertools, random

ID = 'C15'
LEVEL = 'model_checking'
EXPLANATION = ('every index-sharing topology of three operands of rank <= 2 (and seeded ones with rank-3 / four operands in the thorough tier) is '
               'instantiated with several extent assignments (distinct, skewed so that a different pairwise order is cheapest, and all equal), '
               'with op-min on and off; the wrapper records the rank/extents of the returned type; z3 decides extents and every element equal to '
               'the single loop nest over all distinct indices with free indices in order of first appearance - with symbolic values a result '
               'whose free indices come out in pairing order is a different polynomial even when all extents are equal')
ASSUMPTIONS = ['float clause: exact-real identity + rounding depth bound']


def topologies(nops, max_rank):
    """index lists per operand; each label occurs at most twice overall and at most once per operand; canonical by first appearance"""
    out = set()
    ranks = list(itertools.product(range(1, max_rank + 1), repeat=nops))
    for rk in ranks:
        slots = [(o, p) for o in range(nops) for p in range(rk[o])]
        def rec(i, lab, nxt, used):
            if i == len(slots):
                lists = [[] for _ in range(nops)]
                for (o, p), l in zip(slots, lab): lists[o].append(l)
                out.add(tuple(tuple(l) for l in lists)); return
            o, p = slots[i]
            mine = [lab[j] for j in range(i) if slots[j][0] == o]
            for l in range(nxt):
                if used[l] < 2 and l not in mine:
                    used[l] += 1; rec(i + 1, lab + [l], nxt, used); used[l] -= 1
            used.append(1); rec(i + 1, lab + [nxt], nxt + 1, used); used.pop()
        rec(0, [], 0, [])
    # keep connected-or-not all; drop those with no contraction at all (pure outer products are C03 territory) only if nothing shared
    res = []
    for t in sorted(out):
        cnt = {}
        for l in t:
            for i in l: cnt[i] = cnt.get(i, 0) + 1
        if any(v == 2 for v in cnt.values()): res.append([list(l) for l in t])
    return res


def cases(tier, cfg, seed):
    rng = random.Random(seed + 15); out = []; ids = set()
    def add(c):
        if c.id not in ids: ids.add(c.id); out.append(c)
    tops = topologies(3, 2)
    pals = [[2, 3, 4, 5, 2, 3], [4, 2, 2, 3, 5, 2], [3, 3, 3, 3, 3, 3]]
    for ti, lists in enumerate(tops):
        for pi, pal in enumerate(pals):
            ext = assign_extents(lists, pal)
            types = ['double', 'int'] if (tier == 'quick' and pi == 0) else (['double'] if tier == 'quick' else ALLT)
            if tier == 'quick' and pi == 1 and ti % 2: continue
            for T in types: add(Ein(T, lists, ext, tag='e3'))
    # chains with a free index on the first and last operand, on extents that make each depth-first order the cheapest in turn
    for pal in ([8, 3, 3, 2], [4, 2, 5, 4], [2, 3, 4, 5], [2, 5, 2, 6]):
        add(Ein('double', [[0, 1], [1, 2], [2, 3]], assign_extents([[0, 1], [1, 2], [2, 3]], pal), tag='e3c'))
    for pal in ([6, 5, 4, 3, 2], [4, 2, 5, 4, 4], [2, 3, 4, 5, 6], [3, 3, 3, 3, 3], [2, 6, 2, 6, 2], [5, 2, 2, 2, 5]):
        ch = [[0, 1], [1, 2], [2, 3], [3, 4]]
        add(Ein('double', ch, assign_extents(ch, pal), tag='e4c'))
        if pal[0] != pal[1]: add(Ein('int', ch, assign_extents(ch, pal), tag='e4c'))
    if tier != 'quick':
        t33 = topologies(3, 3); rng.shuffle(t33)
        for lists in t33[:60]: add(Ein('double', lists, assign_extents(lists, [2, 3, 2, 4, 3, 2, 2, 3, 2]), tag='e3'))
        t4 = topologies(4, 2); rng.shuffle(t4)
        for lists in t4[:60]: add(Ein('double', lists, assign_extents(lists, [2, 3, 4, 2, 3, 2, 4, 3]), tag='e4'))
    else:
        t4 = topologies(4, 2); rng.shuffle(t4)
        for lists in t4[:12]: add(Ein('double', lists, assign_extents(lists, [2, 3, 4, 2, 3, 2, 4, 3]), tag='e4'))
    return out


def cfgs(tier):
    c = main_cfgs(tier)
    # op-min off (FASTOR_DONT_PERFORM_OP_MIN) cannot be exercised: <Fastor/Fastor.h> does not compile with it (known finding under C06)
    return c + [Cfg('avx2', 14, 'O2')]


def bounds(tier): return {'topologies_3ops_rank2': len(topologies(3, 2)), 'outside': 'DepthFirst variants; rank-3 operands and 4 operands only seeded subsets'}
def mandatory(case_id, cfg_key): return False
def on_compile_fail(case, cfg, cf): return 'skip'      # topologies whose pairwise reduction passes through a scalar are rejected by the library under every ISA (recorded in compile_matrix)


def post_case(c, cfg, r):
    if c.dom == 'real' and r.get('depth_max', 0) > c.depth_limit: return [f'rounding depth {r["depth_max"]} exceeds {c.depth_limit}']
    return []
