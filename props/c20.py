"""C20 wrapped/reshaped tensors are true aliases; layout conversions are exact inverses; constructors store row-major."""
from .common import *
from .views_gen import *
from .einsum_gen import strides
import itertools

ID = 'C20'
LEVEL = 'model_checking'
EXPLANATION = ('every operation of a generated list (element-wise assignment forms, compile-time views, reductions, matmul operand) is applied through '
               'a TensorMap over an exact-size external buffer that is only alignof(T)-aligned and must leave the buffer exactly as the same '
               'operation on plain arrays would (one inductive step from an ARBITRARY symbolic buffer state - a map has no state but its pointer, '
               'so alternating histories of any length follow); writes through reshape/flatten/squeeze must be visible in the source at the '
               'row-major-identical offset and vice versa; layout conversions and constructors are pure data movement decided bit-for-bit')
ASSUMPTIONS = ['float arithmetic uninterpreted (congruence) for the map-vs-array equivalence; reductions in exact reals', 'integer /=: divisors not in {0,-1}']


class MapOp(Case):
    """op applied through TensorMap<T,shape> over the buffer p (inout)"""
    def __init__(s, T, shape, name, kstmt, rstmt, extra=(), outs=(), dom=None, pre=None):
        sz = prod(shape)
        p = Buf('p', T, sz, 'inout')
        k = f'TensorMap<{T},{dims(*shape)}> M(p); {kstmt}'
        Case.__init__(s, f'map_{SHORT[T]}_{"x".join(map(str, shape))}_{name}', [p] + list(extra) + list(outs), k, rstmt, desc=f'TensorMap<{T},{dims(*shape)}>: {kstmt}', pre=pre)
        s.dom = dom or ('uf' if T in FT else 'bits')


def map_ops(T, shape):
    sz = prod(shape); tt = f'Tensor<{T},{dims(*shape)}>'; isf = T in FT
    B = lambda: Buf('b', T, sz); X = lambda: Buf('x', T, 1)
    add = (lambda a, b: f'{a}+{b}') if isf else (lambda a, b: f'({T})(({UT[T]}){a}+({UT[T]}){b})')
    out = []
    loop = lambda body: f'for(int q=0;q<{sz};++q) {{ {body} }}'
    out.append(MapOp(T, shape, 'assign_t', f'{tt} B(b); M = B;', loop('p[q]=b[q];'), [B()]))
    for op in ('+=', '-=', '*='):
        out.append(MapOp(T, shape, f'{OPN[op]}_t', f'{tt} B(b); M {op} B;', loop(apply_op(T, op, 'p[q]', 'b[q]')), [B()]))
    out.append(MapOp(T, shape, 'pe_s', 'M += x[0];', loop(apply_op(T, '+=', 'p[q]', 'x[0]')), [X()]))
    out.append(MapOp(T, shape, 'expr', f'{tt} B(b); M = M + B;', loop('p[q]=' + add('p[q]', 'b[q]') + ';'), [B()]))
    out.append(MapOp(T, shape, 'expr2', f'{tt} B(b); {tt} R = M + B; M = R;', loop('p[q]=' + add('p[q]', 'b[q]') + ';'), [B()]))
    if isf:
        out.append(MapOp(T, shape, 'de_t', f'{tt} B(b); M /= B;', loop('p[q] /= b[q];'), [B()]))
    # reductions through the map (buffer must stay untouched)
    fold = f'{T} s_=0; for(int q=0;q<{sz};++q) s_ = ' + (('s_ + p[q]') if isf else f'({T})(({UT[T]})s_+({UT[T]})p[q])') + '; o[0]=s_;'
    out.append(MapOp(T, shape, 'sum', 'o[0] = sum(M);', fold, outs=[Buf('o', T, 1, 'out')], dom='real' if isf else 'bits'))
    # owning copy constructed from a map
    out.append(MapOp(T, shape, 'copyout', f'{tt} R = M; ' + copy_out('R', 'o', sz), loop('o[q]=p[q];'), outs=[Buf('o', T, sz, 'out')]))
    if len(shape) == 1 and sz >= 5:
        n = sz
        out.append(MapOp(T, shape, 'fview_w', f'Tensor<{T},{(n - 1) // 2}> B(b); M(fseq<1,{2 * ((n - 1) // 2) + 1},2>()) = B;',
                         f'for(int q=0;q<{(n - 1) // 2};++q) p[1+2*q]=b[q];', [Buf('b', T, (n - 1) // 2)]))
        out.append(MapOp(T, shape, 'fview_r', f'Tensor<{T},{n - 2}> R = M(fseq<1,{n - 1}>()); ' + copy_out('R', 'o', n - 2), f'for(int q=0;q<{n - 2};++q) o[q]=p[1+q];',
                         outs=[Buf('o', T, n - 2, 'out')]))
    if len(shape) == 2:
        M_, N_ = shape
        mm = ' '.join(f'{{ {T} s_=0; for(int k=0;k<{N_};++k) s_+=p[{i}*{N_}+k]*b[k*2+{j}]; o[{i * 2 + j}]=s_; }}' for i in range(M_) for j in range(2)) if isf else None
        if isf:
            out.append(MapOp(T, shape, 'matmul', f'Tensor<{T},{N_},2> B(b); Tensor<{T},{M_},2> R = matmul(M,B); ' + copy_out('R', 'o', M_ * 2), mm,
                             [Buf('b', T, N_ * 2)], [Buf('o', T, M_ * 2, 'out')], dom='real'))
        out.append(MapOp(T, shape, 'fview2_w', f'Tensor<{T},{M_},1> B(b); M(fseq<0,{M_}>(),fseq<{N_ - 1},{N_}>()) = B;', f'for(int q=0;q<{M_};++q) p[q*{N_}+{N_ - 1}]=b[q];', [Buf('b', T, M_)]))
    return out


class Reshape(Case):
    def __init__(s, T, shape, tshape, kind):
        sz = prod(shape); tt = f'Tensor<{T},{dims(*shape)}>'
        a = Buf('a', T, sz, 'inout'); x = Buf('x', T, 1); o = Buf('o', T, sz, 'out')
        st = strides(tshape); idx = [min(1, d - 1) for d in tshape]; off = sum(i * s_ for i, s_ in zip(idx, st))
        if kind == 'reshape': call = f'reshape<{dims(*tshape)}>(A)'
        elif kind == 'flatten': call = 'flatten(A)'; tshape = (sz,); idx = [sz // 2]; off = sz // 2
        else: call = 'squeeze(A)'; tshape = tuple(d for d in shape if d != 1); st = strides(tshape); idx = [min(1, d - 1) for d in tshape]; off = sum(i * s_ for i, s_ in zip(idx, st))
        ii = ','.join(map(str, idx))
        # write through the alias, then through the source, read back through the alias
        k = (f'{tt} A(a); auto R = {call}; R({ii}) = x[0]; A.data()[0] = x[0]; for(int q=0;q<{sz};++q) o[q]=R.data()[q]; ' + copy_out('A', 'a', sz))
        r = f'a[{off}]=x[0]; a[0]=x[0]; for(int q=0;q<{sz};++q) o[q]=a[q];'
        Case.__init__(s, f'{kind}_{SHORT[T]}_{"x".join(map(str, shape))}_{"x".join(map(str, tshape))}', [a, x, o], k, r, desc=f'{call} of {tt}: write through alias and source')
        s.dom = 'bits'


class SelfMap(Case):
    """compound assignment whose right-hand side is a map over the destination's own storage: a op= flatten(a) etc."""
    def __init__(s, T, shape, kind, op):
        sz = prod(shape); tt = f'Tensor<{T},{dims(*shape)}>'
        a = Buf('a', T, sz, 'inout')
        if kind == 'flatten': rhs = 'flatten(A)'
        elif kind == 'reshape': rhs = f'reshape<{dims(*shape)}>(A)'
        else: rhs = f'TensorMap<{T},{dims(*shape)}>(A.data())'
        k = f'{tt} A(a); A {op} {rhs}; ' + copy_out('A', 'a', sz)
        r = f'for(int q=0;q<{sz};++q) {{ {T} t_ = a[q]; ' + apply_op(T, op, 'a[q]', 't_') + ' }'
        def pre(V):
            if T in IT and op == '/=':
                w = CT[T][1]; return [c for i in range(sz) for c in (V.el('a', i) != 0, V.el('a', i) != mask(-1, w))]
            return []
        Case.__init__(s, f'selfmap_{SHORT[T]}_{"x".join(map(str, shape))}_{kind}_{OPN[op]}', [a], k, r, desc=f'A {op} {rhs} on {tt}', pre=pre)
        s.dom = 'uf' if T in FT else 'bits'; s.uf_int = T in IT


class Layout(Case):
    def __init__(s, T, shape, kind):
        sz = prod(shape); n = len(shape); tt = f'Tensor<{T},{dims(*shape)}>'
        a = Buf('a', T, sz); o = Buf('o', T, sz, 'out')
        rst = strides(shape); cst = [prod(shape[:k]) for k in range(n)]
        loops = ''.join(f'for(int i{k}=0;i{k}<{shape[k]};++i{k}) ' for k in range(n))
        ro = '+'.join(f'i{k}*{rst[k]}' for k in range(n)); co = '+'.join(f'i{k}*{cst[k]}' for k in range(n))
        if kind == 'tocol': k = f'{tt} A(a); {tt} R = tocolumnmajor(A); ' + copy_out('R', 'o', sz); r = f'{loops} o[{co}] = a[{ro}];'
        elif kind == 'torow': k = f'{tt} A(a); {tt} R = torowmajor(A); ' + copy_out('R', 'o', sz); r = f'{loops} o[{ro}] = a[{co}];'
        elif kind == 'round': k = f'{tt} A(a); {tt} R = torowmajor(tocolumnmajor(A)); ' + copy_out('R', 'o', sz); r = f'for(int q=0;q<{sz};++q) o[q]=a[q];'
        elif kind == 'ctor_col': k = f'{tt} R(a, ColumnMajor); ' + copy_out('R', 'o', sz); r = f'{loops} o[{ro}] = a[{co}];'
        elif kind == 'ctor_row': k = f'{tt} R(a, RowMajor); ' + copy_out('R', 'o', sz); r = f'for(int q=0;q<{sz};++q) o[q]=a[q];'
        elif kind == 'ctor_arr': k = f'std::array<{T},{sz}> arr; for(int q=0;q<{sz};++q) arr[q]=a[q]; {tt} R(arr); ' + copy_out('R', 'o', sz); r = f'for(int q=0;q<{sz};++q) o[q]=a[q];'
        elif kind == 'ctor_arr_col': k = f'std::array<{T},{sz}> arr; for(int q=0;q<{sz};++q) arr[q]=a[q]; {tt} R(arr, ColumnMajor); ' + copy_out('R', 'o', sz); r = f'{loops} o[{ro}] = a[{co}];'
        elif kind == 'ctor_il':
            def il(level, base):
                if level == n - 1: return '{' + ','.join(f'a[{base + j}]' for j in range(shape[level])) + '}'
                return '{' + ','.join(il(level + 1, base + j * rst[level]) for j in range(shape[level])) + '}'
            k = f'{tt} R = {il(0, 0)}; ' + copy_out('R', 'o', sz); r = f'for(int q=0;q<{sz};++q) o[q]=a[q];'
        Case.__init__(s, f'{kind}_{SHORT[T]}_{"x".join(map(str, shape))}', [a, o], k, r, desc=f'{kind} {tt}')
        s.dom = 'bits'
        # the property fixes WHAT the two conversions do (one places (i0..ik) at the column-major offset, the other inverts it),
        # not which of the two names does which: the library's tocolumnmajor() reads column-major data (it backs the ColumnMajor
        # constructors), so either assignment of the two maps to the two names is accepted; the round trip pins consistency
        if kind == 'tocol': s.alt_ref_src = f'{loops} o[{ro}] = a[{co}];'
        if kind == 'torow': s.alt_ref_src = f'{loops} o[{co}] = a[{ro}];'


def cases(tier, cfg, seed):
    out = []
    TS = ['double', 'float', 'int'] if tier == 'quick' else ALLT
    for T in TS:
        for shape in ([(7,), (3, 5), (2, 3, 2)] if tier == 'quick' else [(1,), (5,), (7,), (9,), (17,), (3, 5), (4, 4), (2, 9), (2, 3, 2), (2, 2, 2, 3)]):
            out += map_ops(T, shape)
        for shape, t in [((2, 6), (3, 4)), ((2, 6), (12,)), ((2, 3, 4), (6, 4)), ((4, 3), (2, 2, 3))] + ([((2, 6), (4, 3)), ((8,), (2, 4)), ((2, 2, 2, 3), (4, 6))] if tier != 'quick' else []):
            out.append(Reshape(T, shape, t, 'reshape'))
        out.append(Reshape(T, (2, 3, 4), None, 'flatten') if False else Reshape(T, (2, 3, 4), (24,), 'flatten'))
        out.append(Reshape(T, (3, 5), (15,), 'flatten'))
        out.append(Reshape(T, (1, 3, 1, 4), (3, 4), 'squeeze')); out.append(Reshape(T, (5, 1), (5,), 'squeeze'))
        for shape in ([(2, 3), (4, 3), (2, 3, 4), (2, 3, 2, 4), (3, 3)] if tier == 'quick' else [(2, 3), (4, 3), (5, 2), (3, 3), (2, 3, 4), (3, 2, 5), (2, 3, 2, 4), (2, 2, 2, 2)]):
            for kind in ('tocol', 'torow', 'round', 'ctor_col', 'ctor_row', 'ctor_arr', 'ctor_arr_col'):
                out.append(Layout(T, shape, kind))
        for shape in [(5,), (2, 3), (2, 2, 3), (2, 2, 2, 2)]: out.append(Layout(T, shape, 'ctor_il'))
        for op in ('+=', '-=', '*=', '/='):
            out.append(SelfMap(T, (9,), 'flatten', op)); out.append(SelfMap(T, (3, 4), 'reshape', op)); out.append(SelfMap(T, (2, 5), 'map', op))
    return out


def cfgs(tier): return main_cfgs(tier)
def bounds(tier): return {'shapes': 'rank 1-4 listed in the module', 'outside': 'std::vector constructor (allocates; exempt), dynamic views on maps (see DESIGN: compile failure D12), histories longer than one step are covered by the inductive argument only'}
def mandatory(case_id, cfg_key): return False
def on_compile_fail(case, cfg, cf): return 'broken'
