"""C01 matrix product: matmul(A,B), A % B, matmul(A,v), matmul(v,B) against the naive triple loop."""
from .common import *

ID = 'C01'
LEVEL = 'model_checking'
EXPLANATION = ('each (type,M,K,N,form) instantiation of the real matmul kernels is compiled by clang to IR and executed symbolically; '
               'every result element is compared by z3 with the naive triple loop compiled through the same pipeline: integers as '
               'bit-vectors (wrap-around included), floats as exact real polynomials plus a counted rounding depth; the result buffer '
               'starts uninitialised so an unwritten element is detected, every access is bounds/alignment-checked in the region model')
ASSUMPTIONS = ['float clause: exact-real identity + rounding depth <= 2K+2 (Higham Lemma 3.1 gives the K*eps*sum|a||b| bound); overflow/NaN/Inf outside the claim']


class MM(Case):
    def __init__(s, T, M, K, N, form):
        s.T, s.M, s.K, s.N, s.form = T, M, K, N, form
        a = Buf('a', T, M * K); b = Buf('b', T, K * N); c = Buf('c', T, M * N, 'out')
        ta = f'Tensor<{T},{M},{K}>' if form != 'vm' else f'Tensor<{T},{K}>'
        tb = f'Tensor<{T},{K},{N}>' if form != 'mv' else f'Tensor<{T},{K}>'
        if form == 'mv': tc = f'Tensor<{T},{M}>'
        elif form == 'vm': tc = f'Tensor<{T},{N}>'
        else: tc = f'Tensor<{T},{M},{N}>'
        expr = 'A % B' if form == 'lazy' else 'matmul(A,B)'
        k = f'{ta} A(a); {tb} B(b); {tc} C = {expr}; ' + copy_out('C', 'c', M * N)
        acc = 's+=a[i*{K}+k]*b[k*{N}+j];' if T in FT else 's=({T})(({U})s+({U})a[i*{K}+k]*({U})b[k*{N}+j]);'
        acc = acc.format(K=K, N=N, T=T, U={'int': 'unsigned', 'long': 'unsigned long'}.get(T))
        r = (f'for(int i=0;i<{M};++i) for(int j=0;j<{N};++j){{ {T} s=0; for(int k=0;k<{K};++k) {acc} c[i*{N}+j]=s; }}')
        Case.__init__(s, f'mm{form}_{SHORT[T]}_{M}_{K}_{N}', [a, b, c], k, r, desc=f'{form} {T} {M}x{K}x{N}')
        s.dom = dom_for(T); s.depth_limit = 2 * K + 2


class CMM(Case):
    """complex element types: same harness, reference in std::complex arithmetic, compared component-wise over exact reals"""
    def __init__(s, T, M, K, N, form):
        a = Buf('a', T, M * K); b = Buf('b', T, K * N); c = Buf('c', T, M * N, 'out'); X = cxx(T)
        expr = 'A % B' if form == 'lazy' else 'matmul(A,B)'
        k = f'Tensor<{X},{M},{K}> A(a); Tensor<{X},{K},{N}> B(b); Tensor<{X},{M},{N}> C = {expr}; ' + copy_out('C', 'c', M * N)
        r = f'for(int i=0;i<{M};++i) for(int j=0;j<{N};++j){{ {X} s=0; for(int k=0;k<{K};++k) s+=a[i*{K}+k]*b[k*{N}+j]; c[i*{N}+j]=s; }}'
        Case.__init__(s, f'cmm{form}_{SHORT[T]}_{M}_{K}_{N}', [a, b, c], k, r, desc=f'{form} {X} {M}x{K}x{N}')
        s.dom = 'real'; s.depth_limit = 4 * K + 4; s.T, s.M, s.K, s.N, s.form = T, M, K, N, form


def shapes(tier):
    S = set()
    small = range(1, 5) if tier == 'quick' else range(1, 8)
    for m in small:
        for k in small:
            for n in small: S.add((m, k, n))
    Ns = [5, 7, 8, 9, 15, 16, 17, 31, 32, 33] if tier == 'quick' else [5, 6, 7, 8, 9, 10, 11, 12, 13, 15, 16, 17, 23, 24, 25, 31, 32, 33, 39, 40, 41]
    Ms = [1, 3, 5] if tier == 'quick' else [1, 2, 3, 4, 5, 8, 9, 12, 13]
    Ks = [2, 5] if tier == 'quick' else [1, 2, 5, 8]
    for n in Ns:
        for m in Ms:
            for k in Ks: S.add((m, k, n))
    for (m, k, n) in [(8, 8, 8), (8, 3, 8), (4, 7, 4), (2, 5, 2), (3, 4, 3), (12, 2, 12), (13, 5, 4), (9, 9, 9), (5, 5, 5), (6, 6, 6)]: S.add((m, k, n))
    # multiples of 3,4,5 vector widths with M a multiple of the row unroll (register-tile kernels), and N < V with M a multiple of 10
    for (m, k, n) in [(12, 2, 24), (12, 2, 30), (12, 2, 36), (12, 3, 40), (24, 2, 48), (10, 2, 3), (20, 3, 3), (10, 2, 7), (10, 3, 5), (20, 2, 6)]: S.add((m, k, n))
    if tier == 'thorough':
        for (m, k, n) in [(16, 16, 16), (17, 3, 17), (4, 33, 4), (10, 10, 10), (12, 12, 12), (8, 16, 8), (2, 2, 40), (3, 3, 48), (24, 2, 24)]: S.add((m, k, n))
    return sorted(S)


def cases(tier, cfg, seed):
    out = []
    for T in ALLT:
        for (m, k, n) in shapes(tier):
            if tier == 'quick' and T in IT and max(m, k, n) <= 4 and (m + k + n) % 2: continue
            out.append(MM(T, m, k, n, 'mm'))
            if n == 1 and k > 1: out.append(MM(T, m, k, 1, 'mv'))
            if m == 1 and k > 1: out.append(MM(T, 1, k, n, 'vm'))
            if (m * 7 + k * 3 + n) % (4 if tier == 'quick' else 2) == 0: out.append(MM(T, m, k, n, 'lazy'))
    cshapes = [(1, 1, 1), (2, 2, 2), (3, 3, 3), (4, 4, 4), (1, 3, 2), (2, 3, 5), (3, 2, 1), (5, 2, 3), (2, 5, 9), (8, 2, 8)] if tier == 'quick' else [(m, k, n) for m in range(1, 6) for k in range(1, 5) for n in range(1, 6)] + [(2, 5, 9), (8, 2, 8), (3, 3, 17), (9, 9, 9)]
    for T in ('cdouble', 'cfloat'):
        for (m, k, n) in cshapes:
            out.append(CMM(T, m, k, n, 'mm'))
            if (m + k + n) % 2 == 0: out.append(CMM(T, m, k, n, 'lazy'))
    return out


def cfgs(tier): return main_cfgs(tier)


def bounds(tier):
    return {'shapes': len(shapes(tier)), 'max_dim': max(max(s) for s in shapes(tier)), 'types': ALLT + ['complex<float>', 'complex<double>'], 'forms': ['matmul(A,B)', 'A % B', 'matmul(A,v)', 'matmul(v,B)'],
            'outside': 'shapes not listed; MKL/LIBXSMM back ends; overflow/NaN in the rounding clause'}


def mandatory(case_id, cfg_key):
    return False


def post_case(c, cfg, r):
    if c.dom == 'real' and r.get('depth_max', 0) > c.depth_limit:
        return [f'rounding depth {r["depth_max"]} exceeds 2K+2={c.depth_limit}']
    return []
