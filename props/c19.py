"""C19 index-tensor and boolean-mask views select and update exactly the indexed items."""
from .common import *
from .views_gen import *
from .c04 import fs, sel_of, spec_cpp
import z3, itertools

ID = 'C19'
LEVEL = 'model_checking'
EXPLANATION = ('A(it), A(it0,it1), A(it,int|fseq) and A(mask) are executed symbolically with SYMBOLIC index values (each in range; pairwise '
               'distinct for writes) and SYMBOLIC mask bits, so every index vector / all 2^n masks of a shape are one solver query: reads must '
               'return A[idx_j] in index-tensor order (repeats allowed), writes must update exactly the indexed / mask-true positions with the '
               'element-wise combined value and leave every other element of A unchanged; float arithmetic is uninterpreted (congruence)')
ASSUMPTIONS = ['index values in range [0, size); duplicate-free for writes', 'mask elements are 0 or 1', 'integer /=: rhs elements not in {0,-1}']
IDXT = {'int': 'int', 'long': 'long', 'size_t': 'size_t'}


def in_range(V, name, n, hi, w):
    return [z3.ULT(V.el(name, i), z3.BitVecVal(hi, w)) for i in range(n)]


def distinct(V, name, n):
    return [z3.Distinct(*[V.el(name, i) for i in range(n)])] if n > 1 else []


def nodiv(V, T, bufs):
    cs = []; w = CT[T][1]
    for b in bufs:
        for i in range(b.n): cs += [V.el(b.name, i) != 0, V.el(b.name, i) != mask(-1, w)]
    return cs


class ItRead(Case):
    def __init__(s, T, shape, n, IT_='int'):
        sz = prod(shape); a = Buf('a', T, sz); it = Buf('it', IT_, n); o = Buf('o', T, n, 'out'); w = CT[IT_][1]
        ish = dims(*([n] + [1] * (len(shape) - 1)))   # the index tensor must have the rank of the parent (flat indices)
        k = f'Tensor<{T},{dims(*shape)}> A(a); Tensor<{IT_},{ish}> I(it); Tensor<{T},{ish}> R = A(I); ' + copy_out('R', 'o', n)
        r = f'for(int q=0;q<{n};++q) o[q] = a[it[q]];'
        Case.__init__(s, f'itr_{SHORT.get(T)}_{"x".join(map(str, shape))}_{n}_{SHORT.get(IT_, IT_)}', [a, it, o], k, r, desc=f'R = A(it) len {n} on {shape} {T}, index type {IT_}',
                      pre=lambda V: in_range(V, 'it', n, sz, w))
        s.dom = 'bits'; s.max_paths = 64


class ItRead2(Case):
    def __init__(s, T, M, N, m, n):
        a = Buf('a', T, M * N); i0 = Buf('it0', 'int', m); i1 = Buf('it1', 'int', n); o = Buf('o', T, m * n, 'out')
        k = f'Tensor<{T},{M},{N}> A(a); Tensor<int,{m}> I0(it0); Tensor<int,{n}> I1(it1); Tensor<{T},{m},{n}> R = A(I0,I1); ' + copy_out('R', 'o', m * n)
        r = f'for(int p=0;p<{m};++p) for(int q=0;q<{n};++q) o[p*{n}+q] = a[it0[p]*{N}+it1[q]];'
        Case.__init__(s, f'itr2_{SHORT[T]}_{M}x{N}_{m}x{n}', [a, i0, i1, o], k, r, desc=f'R = A(it0,it1) {m}x{n} on {M}x{N} {T}',
                      pre=lambda V: in_range(V, 'it0', m, M, 32) + in_range(V, 'it1', n, N, 32))
        s.dom = 'bits'


class ItMixed(Case):
    """A(it, fseq) / A(fseq, it) / A(it, int) / A(int, it) reads"""
    def __init__(s, T, M, N, m, form, spec=None):
        a = Buf('a', T, M * N); it = Buf('it', 'int', m)
        if form in ('it_fseq', 'fseq_it'):
            ix, _ = sel_of(spec, N if form == 'it_fseq' else M); c = len(ix)
            o = Buf('o', T, m * c, 'out')
            if form == 'it_fseq':
                call = f'A(I,{spec_cpp(spec)})'; rt = f'Tensor<{T},{m},{c}>'
                r = ' '.join(f'for(int p=0;p<{m};++p) o[p*{c}+{q}] = a[it[p]*{N}+{j}];' for q, j in enumerate(ix)); hi = M
            else:
                call = f'A({spec_cpp(spec)},I)'; rt = f'Tensor<{T},{c},{m}>'
                r = ' '.join(f'for(int p=0;p<{m};++p) o[{q}*{m}+p] = a[{j}*{N}+it[p]];' for q, j in enumerate(ix)); hi = N
            osz = m * c; nm = spec_cpp(spec).replace('<', '').replace('>', '').replace('(', '').replace(')', '').replace(',', '_').replace('-', 'm')
        else:
            o = Buf('o', T, m, 'out'); osz = m; nm = '1'
            if form == 'it_int': call = 'A(I,1)'; rt = f'Tensor<{T},{m},1>'; r = f'for(int p=0;p<{m};++p) o[p] = a[it[p]*{N}+1];'; hi = M
            else: call = 'A(1,I)'; rt = f'Tensor<{T},{m},1>'; r = f'for(int p=0;p<{m};++p) o[p] = a[1*{N}+it[p]];'; hi = N
        k = f'Tensor<{T},{M},{N}> A(a); Tensor<int,{m}> I(it); {rt} R = {call}; ' + copy_out('R', 'o', osz)
        Case.__init__(s, f'itm_{SHORT[T]}_{M}x{N}_{m}_{form}_{nm}', [a, it, o], k, r, desc=f'R = {call} on {M}x{N} {T}', pre=lambda V: in_range(V, 'it', m, hi, 32))
        s.dom = 'bits'


class ItWrite(Case):
    def __init__(s, T, shape, n, op, kind):
        sz = prod(shape); a = Buf('a', T, sz, 'inout'); it = Buf('it', 'int', n)
        extra = {'scalar': [Buf('x', T, 1)], 'tensor': [Buf('b', T, n)], 'expr': [Buf('b', T, n), Buf('c', T, n)]}[kind]
        fr = {'scalar': 'x[0]', 'tensor': 'B', 'expr': '(B+C)'}[kind]
        sr = {'scalar': 'x[0]', 'tensor': 'b[q]', 'expr': 'b[q]+c[q]' if T in FT else f'({T})(({UT[T]})b[q]+({UT[T]})c[q])'}[kind]
        decl = {'scalar': '', 'tensor': f'Tensor<{T},{n}> B(b);', 'expr': f'Tensor<{T},{n}> B(b), C(c);'}[kind]
        ish = dims(*([n] + [1] * (len(shape) - 1)))
        decl = decl.replace(f'Tensor<{T},{n}>', f'Tensor<{T},{ish}>')
        k = f'Tensor<{T},{dims(*shape)}> A(a); Tensor<int,{ish}> I(it); {decl} A(I) {op} {fr}; ' + copy_out('A', 'a', sz)
        r = f'for(int q=0;q<{n};++q) {{ ' + apply_op(T, op, 'a[it[q]]', sr) + ' }'
        def pre(V):
            cs = in_range(V, 'it', n, sz, 32) + distinct(V, 'it', n)
            if T in IT and op == '/=': cs += nodiv(V, T, extra)
            return cs
        Case.__init__(s, f'itw_{SHORT[T]}_{"x".join(map(str, shape))}_{n}_{OPN[op]}_{kind[:3]}', [a, it] + extra, k, r, desc=f'A(it) {op} {fr}: len {n} on {shape} {T}', pre=pre)
        s.dom = 'uf' if T in FT else 'bits'; s.uf_int = T in IT; s.timeout = 30
        if T in FT and op == '/=' and kind == 'scalar': s.alt_ref_src = f'{T} rc_ = ({T})1/x[0]; for(int q=0;q<{n};++q) a[it[q]] *= rc_;'


class MaskWrite(Case):
    def __init__(s, T, shape, op, kind):
        sz = prod(shape); a = Buf('a', T, sz, 'inout'); m = Buf('m', 'bool', sz)
        extra = {'scalar': [Buf('x', T, 1)], 'tensor': [Buf('b', T, sz)], 'expr': [Buf('b', T, sz), Buf('c', T, sz)], 'mm': [Buf('b', T, sz), Buf('c', T, sz)]}[kind]
        fr = {'scalar': 'x[0]', 'tensor': 'B', 'expr': '(B+C)', 'mm': '(B % C)'}[kind]
        sr = {'scalar': 'x[0]', 'tensor': 'b[q]', 'expr': 'b[q]+c[q]' if T in FT else f'({T})(({UT[T]})b[q]+({UT[T]})c[q])', 'mm': None}[kind]
        if kind == 'mm':     # right-hand side that requires evaluation (lazy matrix product), square 2-D shapes only
            n = shape[0]
            terms = [(f'b[(q/{n})*{n}+{k_}]*c[{k_}*{n}+(q%{n})]' if T in FT else f'({UT[T]})b[(q/{n})*{n}+{k_}]*({UT[T]})c[{k_}*{n}+(q%{n})]') for k_ in range(n)]
            sr = '(' + '+'.join(terms) + ')' if T in FT else f'({T})(' + '+'.join(terms) + ')'
        tt = f'Tensor<{T},{dims(*shape)}>'
        decl = {'scalar': '', 'tensor': f'{tt} B(b);', 'expr': f'{tt} B(b), C(c);', 'mm': f'{tt} B(b), C(c);'}[kind]
        k = f'{tt} A(a); Tensor<bool,{dims(*shape)}> M(m); {decl} A(M) {op} {fr}; ' + copy_out('A', 'a', sz)
        upd = apply_op(T, op, 't_', sr)
        r = f'for(int q=0;q<{sz};++q) {{ {T} t_ = a[q]; {upd} a[q] = m[q] ? t_ : a[q]; }}'
        def pre(V):
            cs = [z3.ULE(V.el('m', i), z3.BitVecVal(1, 8)) for i in range(sz)]
            if T in IT and op == '/=': cs += nodiv(V, T, extra)
            return cs
        Case.__init__(s, f'msk_{SHORT[T]}_{"x".join(map(str, shape))}_{OPN[op]}_{kind[:3]}', [a, m] + extra, k, r, desc=f'A(mask) {op} {fr} on {shape} {T}', pre=pre)
        s.dom = 'uf' if T in FT else 'bits'; s.uf_int = T in IT; s.max_paths = 3000; s.timeout = 30
        if kind == 'mm' and T in FT: s.dom = 'real'; s.uf_int = False
        if T in FT and op == '/=' and kind == 'scalar': s.alt_ref_src = f'{T} rc_ = ({T})1/x[0]; for(int q=0;q<{sz};++q) {{ {T} t_ = a[q]*rc_; a[q] = m[q] ? t_ : a[q]; }}'


class MaskMask(Case):
    """A(m1) op= B(m2): positions where m1 is set receive B at the SAME position (the source mask only says which elements B exposes)"""
    def __init__(s, T, n, op):
        a = Buf('a', T, n, 'inout'); b = Buf('b', T, n); m1 = Buf('m', 'bool', n); m2 = Buf('w', 'bool', n)
        k = f'Tensor<{T},{n}> A(a), B(b); Tensor<bool,{n}> M(m), W(w); A(M) {op} B(W); ' + copy_out('A', 'a', n)
        upd = apply_op(T, op, 't_', 'b[q]')
        r = f'for(int q=0;q<{n};++q) {{ {T} t_ = a[q]; {upd} a[q] = m[q] ? t_ : a[q]; }}'
        def pre(V): return [z3.ULE(V.el('m', i), z3.BitVecVal(1, 8)) for i in range(n)] + [V.el('w', i) == 1 for i in range(n)] if False else \
            [z3.ULE(V.el('m', i), z3.BitVecVal(1, 8)) for i in range(n)] + [z3.ULE(V.el('w', i), z3.BitVecVal(1, 8)) for i in range(n)] + [z3.Implies(V.el('m', i) == 1, V.el('w', i) == 1) for i in range(n)]
        Case.__init__(s, f'mskmsk_{SHORT[T]}_{n}_{OPN[op]}', [a, b, m1, m2], k, r, desc=f'A(m1) {op} B(m2) n={n} {T} (m2 covers m1)', pre=pre)
        s.dom = 'uf' if T in FT else 'bits'; s.uf_int = T in IT; s.max_paths = 3000; s.timeout = 30


OPS = ['=', '+=', '-=', '*=', '/=']


def cases(tier, cfg, seed):
    out = []
    TS = ['double', 'int', 'float'] if tier == 'quick' else ALLT
    for T in TS:
        for n in ((1, 2, 3, 4, 9, 16, 17) if tier == 'quick' else list(range(1, 10)) + [16, 17]):
            out.append(ItRead(T, (9,) if n <= 9 else (17,), n))
        out.append(ItRead(T, (4, 5), 4)); out.append(ItRead(T, (2, 3, 4), 5))
        out.append(ItRead(T, (9,), 4, 'long')); out.append(ItRead(T, (9,), 4, 'size_t'))
        out.append(ItRead2(T, 4, 5, 2, 3)); out.append(ItRead2(T, 5, 9, 3, 8 if T != 'float' else 4))
        out.append(ItMixed(T, 4, 6, 3, 'it_fseq', fs(0, 6))); out.append(ItMixed(T, 4, 6, 3, 'it_fseq', fs(1, 6, 2)))
        out.append(ItMixed(T, 4, 6, 3, 'fseq_it', fs(1, 4))); out.append(ItMixed(T, 4, 6, 3, 'fseq_it', fs(0, 4, 2)))
        out.append(ItMixed(T, 4, 6, 3, 'it_int')); out.append(ItMixed(T, 4, 6, 3, 'int_it'))
        for op in OPS:
            for kind in (('tensor', 'scalar') if tier == 'quick' else ('tensor', 'scalar', 'expr')):
                if T in IT and op == '/=' and kind == 'expr': continue      # integer divisor b+c can be 0 / -1 although b and c are not
                out.append(ItWrite(T, (9,), 4, op, kind))
            out.append(ItWrite(T, (4, 5), 3, op, 'tensor'))
            for kind in (('tensor', 'scalar') if tier == 'quick' else ('tensor', 'scalar', 'expr')):
                if T in IT and op == '/=' and kind == 'expr': continue
                out.append(MaskWrite(T, (7,) if tier == 'quick' else (9,), op, kind))
        out.append(MaskMask(T, 5, '=')); out.append(MaskMask(T, 5, '+='))
        out.append(MaskWrite(T, (3, 3), '=', 'tensor')); out.append(MaskWrite(T, (2, 2, 2), '+=', 'scalar'))
        for op in OPS:
            if not (T in IT and op == '/='): out.append(MaskWrite(T, (3, 3) if (T == 'double' and op in ('=', '-=')) or tier != 'quick' else (2, 2), op, 'mm'))
        if tier != 'quick': out.append(ItWrite(T, (17,), 9, '+=', 'tensor')); out.append(MaskWrite(T, (12,), '=', 'tensor'))
    return out


def cfgs(tier): return main_cfgs(tier)
def bounds(tier): return {'index_lengths': '1..4,9,16,17 (quick)', 'mask_sizes': '7, 3x3, 2x2x2 (all masks symbolic)', 'outside': 'index tensors of rank > 1; masks as expressions'}
def mandatory(case_id, cfg_key): return False
def on_compile_fail(case, cfg, cf): return 'broken'
