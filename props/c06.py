"""C06 results do not depend on the SIMD instruction set, C++ level, optimisation level or tuning macros."""
from .common import *
from . import c01, c02, c03, c04, c14, c16, c17, c05, c19
import random

ID = 'C06'
LEVEL = 'translation_validation'
TECHNIQUE = 'translation validation: the same harness corpus is compiled under each configuration and each IR is proved (z3) equal to the configuration-independent scalar reference for all inputs'
EXPLANATION = ('a fixed seeded corpus of harnesses from C01 C02 C03 C04 C05 C14 C16 C17 C19 is compiled by clang++-14 under every configuration of a '
               'covering array over {scalar, SSE2, SSE4.2, AVX, AVX2+FMA, AVX-512} x {C++14, C++17} x {O1, O2, O3 (and O0 in the thorough tier)} '
               'x documented tuning macros; each resulting IR is executed symbolically and proved equal, for all inputs, to the same scalar '
               'reference (ints/bools bit-identical as bit-vectors, floats as exact reals + bounded rounding depth), hence all configurations '
               'agree pairwise; the clang exit status per configuration forms the compile matrix: accepted somewhere but rejected elsewhere is a violation')
ASSUMPTIONS = ['IR producer is clang++-14 only: g++-specific miscompiles (strict-aliasing of the emulated 64-bit multiply, the five always-failing pinned tests) are outside this check',
               'floats: exact-real identity + rounding depth; the per-operation rounding bound itself is not solver-derived']


def corpus(tier, seed):
    rng = random.Random(1234 + seed)
    cfg = Cfg('avx2')
    out = []
    def pick(cs, k):
        cs = list(cs); rng.shuffle(cs); return cs[:k]
    q = 1 if tier == 'quick' else 4
    out += pick([c for c in c01.cases('quick', cfg, 0) if max(c.M, c.K, c.N) <= 9], 14 * q)
    out += pick([c for c in c02.cases('quick', cfg, 0) if not c.uses_uf and c.n <= 17], 12 * q)
    out += pick([c for c in c16.cases('quick', cfg, 0) if getattr(c, 'n', 99) <= 17 and not c.id.startswith('none_of')], 12 * q)
    out += pick(c14.cases('quick', cfg, 0), 8 * q)
    out += pick([c for c in c17.cases('quick', cfg, 0)], 8 * q)
    out += pick([c for c in c03.cases('quick', cfg, 0) if not c.id.startswith('expl')], 8 * q)
    out += pick([c for c in c05.cases('quick', cfg, 0) if c.id.startswith('fw')], 5 * q)
    out += pick([c for c in c19.cases('quick', cfg, 0) if c.id.startswith(('itr', 'itm'))], 5 * q)
    # always present: reductions wide enough for every register width and for the HADD variants, strided gathers of >= 16 4-byte lanes
    must = {'sum_f32_9', 'sum_f32_17', 'sum_f64_9', 'inner_f32_17', 'norm_f32_9', 'prod_f32_9', 'sum_i32_17', 'inner_f64_9'}
    out += [c for c in c16.cases('quick', cfg, 0) if c.id in must]
    out += [c for c in c04.cases('quick', cfg, 0) if c.id in ('fixx_f32_40_f0_40_2', 'fixx_i32_2x54_a_f0_54_3', 'fix_i32_36_f1_35_2')]
    ids = set(); res = []
    for c in out:
        if c.id not in ids: ids.add(c.id); res.append(c)
    return res


def cases(tier, cfg, seed): return corpus(tier, seed)


def cfgs(tier):
    cs = [Cfg('scalar', 14, 'O1'), Cfg('sse2', 17, 'O3'), Cfg('sse4', 14, 'O2', ('FASTOR_USE_HADD=1',)), Cfg('avx', 17, 'O1', ('FASTOR_USE_HADD=1',)), Cfg('avx2', 14, 'O3'),
          Cfg('avx512', 14, 'O1'), Cfg('avx2', 17, 'O2', ('FASTOR_MATMUL_OUTER_BLOCK_SIZE=2', 'FASTOR_MATMUL_INNER_BLOCK_SIZE=2')),
          Cfg('avx2', 17, 'O2', ('FASTOR_USE_VECTORISED_EXPR_ASSIGN=1', 'FASTOR_DONT_PERFORM_OP_MIN=1')),
          Cfg('sse2', 14, 'O1', ('FASTOR_ENABLE_RUNTIME_CHECKS=1',)), Cfg('avx512', 17, 'O2', ('FASTOR_TRANS_OUTER_BLOCK_SIZE=2', 'FASTOR_TRANS_INNER_BLOCK_SIZE=2'))]
    if tier != 'quick':
        for isa in build.ALL_ISAS:
            for std in (14, 17):
                for o in ('O1', 'O2'):
                    cs.append(Cfg(isa, std, o))
        cs += [Cfg(i, 17, 'O0') for i in ('sse2', 'avx2')] + [Cfg(i, 17, 'O3') for i in build.MAIN_ISAS]
        cs += [Cfg('avx2', 17, 'O2', (m,)) for m in ('FASTOR_USE_HADD=1', 'FASTOR_DONT_VECTORISE=1', 'FASTOR_MATMUL_OUTER_BLOCK_SIZE=4', 'FASTOR_MATMUL_INNER_BLOCK_SIZE=3', 'FASTOR_ZERO_INITIALISE=1')]
    seen = set(); out = []
    for c in cs:
        if c.key() not in seen: seen.add(c.key()); out.append(c)
    return out


def on_compile_fail(case, cfg, cf): return 'skip'      # judged in finalize() across configurations


def finalize(tier, L):
    """compile matrix: a harness rejected in some configurations but accepted in others"""
    viol = []
    cm = L['compile_matrix']; cfgkeys = L['cfgkeys']; known = L['known']
    from fsv.check import match_known
    for cid, fails in cm.items():
        if len(fails) < len(cfgkeys):
            for ck, msg in fails.items():
                kf = match_known(known, 'C06', cid, ck, 'compile')
                if kf:
                    L['known_hit'].setdefault(kf['id'], [kf, 0]); L['known_hit'][kf['id']][1] += 1
                    continue
                viol.append((cid, ck, f'accepted in {len(cfgkeys) - len(fails)} configuration(s) but rejected here: {msg[:140]}', '/verif/replays/C06/compile_' + cid))
    return viol


def post_case(c, cfg, r):
    lim = getattr(c, 'depth_limit', None)
    if c.dom == 'real' and lim and r.get('depth_max', 0) > lim: return [f'rounding depth {r["depth_max"]} exceeds {lim}']
    return []


def bounds(tier): return {'corpus': len(corpus(tier, 0)), 'configurations': [c.key() for c in cfgs(tier)], 'outside': 'compilers other than clang++-14; MSVC/ICC/MIC branches; -ffast-math'}
def mandatory(case_id, cfg_key): return False
