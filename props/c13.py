"""C13 QR factors are orthonormal and upper triangular and reproduce the matrix."""
from .common import *
from .linalg_gen import *

ID = 'C13'
LEVEL = 'model_checking'
EXPLANATION = ('qr<QRCompType::MGSR|MGSRPiv>(A,Q,R[,P]) and determinant<DetCompType::QR> are compiled per ISA and executed symbolically over '
               'exact reals with purified divisions and square roots (r*r = x, r >= 0) and three-address naming; decided for ALL matrices with '
               'non-zero column norms: the strictly-lower part of R is the exact constant 0, Q*R = A entry by entry, Q^T*Q = I for the sizes '
               'where nonlinear real arithmetic terminates, and det_QR = prod R_ii; everything beyond is listed as inconclusive, never claimed')
ASSUMPTIONS = ['exact real arithmetic; loss of orthogonality with cond(A) is outside the claim; column norms non-zero']


class QR(Lin):
    def __init__(s, T, n, strat='MGSR', orth=True, tiny=False):
        a = Buf('a', T, n * n); q = Buf('q', T, n * n, 'out'); r = Buf('r', T, n * n, 'out'); tt = f'Tensor<{T},{n},{n}>'
        piv = strat == 'MGSRPiv'; args = [a, q, r]
        pd = f'Tensor<size_t,{n}> P;' if piv else ''; pc = f'for(int q_=0;q_<{n};++q_) p[q_]=(long)P.data()[q_];' if piv else ''
        if piv: args.append(Buf('p', 'long', n, 'out'))
        k = f'{tt} A(a), Q, R; {pd} qr<QRCompType::{strat}>(A,Q,R{",P" if piv else ""}); ' + copy_out('Q', 'q', n * n) + ' ' + copy_out('R', 'r', n * n) + ' ' + pc
        Lin.__init__(s, f'qr_{SHORT[T]}_{n}_{strat}{"_tiny" if tiny else ""}', T, args, k, f'qr<{strat}> {tt}' + (' with |a_ij| <= 2^-70' if tiny else ''))
        s.n = n; s.orth = orth; s.timeout = 30; s.piv = piv
        if piv: s.max_paths = 60
        if tiny:
            # small-norm operands: the bounds of the property are relative to ||A||, so nothing in the factorisation may compare
            # an intermediate against an absolute threshold
            lim = z3.Q(1, 2 ** 70)
            s.pre_fn = lambda V: [c for i in range(n * n) for c in (V.el('a', i) <= lim, V.el('a', i) >= -lim)]

    def path_obligations(s, mod, kp, stats):
        if kp.status != 'ok': return [Obl('status', z3.BoolVal(False), kp.pc, note='path ended with ' + kp.status)]
        n = s.n; dom = kp.dom; w = s.w
        A = s.mat(kp, 'a', n, n, symbolic_in=True); Q = s.mat(kp, 'q', n, n); R = s.mat(kp, 'r', n, n)
        obls = s.structure(kp, R, lambda i, j: j < i, 0, 'R')
        if any(v is None for M_ in (Q, R) for r in M_.rows for v in r): return obls
        na = dom.nameall; dom.nameall = False
        QRm = matmul_fm(dom, Q, R, w)
        Qt = FM(dom, [[Q[j, i] for j in range(n)] for i in range(n)]); QtQ = matmul_fm(dom, Qt, Q, w)
        dom.nameall = na
        rows = A.rows
        if s.piv:     # row pivot as in the pivoted LU: (Q*R)[i,:] = A[P(i),:]
            from .c11 import _sel
            rd = Reader(dom); pa = [x for x in s.args if x.name == 'p'][0]
            PB = [bv(as_bits(rd.elem(kp.bufs['p'], pa, i), 64), 64) for i in range(n)]
            obls.append(Obl('P is a bijection', z3.And([z3.ULT(x, z3.BitVecVal(n, 64)) for x in PB] + ([z3.Distinct(*PB)] if n > 1 else [])), kp.pc))
            rows = [[_sel([(PB[i] == k_, A[k_, j]) for k_ in range(n)], dom, w) for j in range(n)] for i in range(n)]
        obls += s.eqs(kp, [(f'QR[{i},{j}]', QRm[i, j], rows[i][j]) for i in range(n) for j in range(n)])
        if s.orth: obls += s.eqs(kp, [(f'QtQ[{i},{j}]', QtQ[i, j], cst(dom, w, 1 if i == j else 0)) for i in range(n) for j in range(i, n)])
        return obls

    def native_check(s, inp, rk, rr):
        m = s.nat_mats(inp, rk); n = s.n; A = m['a'].reshape(n, n); Q = m['q'].reshape(n, n); R = m['r'].reshape(n, n)
        if not np.all(np.isfinite(A)) or np.linalg.cond(A) > 1e3: return None
        bad = []
        if s.piv:
            P = m['p']
            if sorted(P.tolist()) != list(range(n)): return 'P is not a bijection'
            A = A[P, :]
        if np.abs(np.tril(R, -1)).max() != 0: bad.append('R not exactly upper triangular')
        sc = np.abs(A).max() if np.abs(A).max() > 1e-200 else 1.0      # the property's bound is relative to ||A||
        if np.abs(Q @ R - A).max() > s.bound(n) * sc: bad.append(f'|Q*R-A| = {np.abs(Q @ R - A).max():.3g}')
        if s.orth and np.abs(Q.T @ Q - np.eye(n)).max() > s.bound(n, np.linalg.cond(m['a'].reshape(n, n))): bad.append(f'|QtQ-I| = {np.abs(Q.T @ Q - np.eye(n)).max():.3g}')
        return '; '.join(bad) or None


class DetQR(Lin):
    def __init__(s, T, n):
        a = Buf('a', T, n * n); o = Buf('o', T, 1, 'out'); r = Buf('r', T, n * n, 'out'); tt = f'Tensor<{T},{n},{n}>'
        k = f'{tt} A(a), Q, R; o[0] = determinant<DetCompType::QR>(A); qr(A,Q,R); ' + copy_out('R', 'r', n * n)
        Lin.__init__(s, f'detqr_{SHORT[T]}_{n}', T, [a, o, r], k, f'determinant<QR> {tt}')
        s.n = n

    def path_obligations(s, mod, kp, stats):
        if kp.status != 'ok': return [Obl('status', z3.BoolVal(False), kp.pc, note='path ended with ' + kp.status)]
        n = s.n; dom = kp.dom; R = s.mat(kp, 'r', n, n); rd = Reader(dom); v = rd.elem(kp.bufs['o'], s.args[1], 0)
        if isinstance(v, Undef): return [Obl('o[0]', z3.BoolVal(False), kp.pc, kind='unwritten')]
        d = rd.as_float(v, s.w); na = dom.nameall; dom.nameall = False
        p = R[0, 0]
        for i in range(1, n): p = dom.bin('fmul', p, R[i, i])
        dom.nameall = na
        return s.eqs(kp, [('det == prod R_ii', d, p)])


def cases(tier, cfg, seed):
    out = []
    for T in (['double'] if tier == 'quick' else ['double', 'float']):
        for n in ((1, 2, 3) if tier == 'quick' else (1, 2, 3, 4, 5, 6, 8)):
            out.append(QR(T, n, 'MGSR', orth=(n <= (2 if tier == 'quick' else 4))))
        for n in ((2,) if tier == 'quick' else (2, 3)): out.append(DetQR(T, n))
        for n in ((2,) if tier == 'quick' else (2, 3)): out.append(QR(T, n, 'MGSRPiv', orth=(n <= 2)))
        out.append(QR(T, 2, 'MGSR', orth=True, tiny=True))
        if tier != 'quick': out.append(QR(T, 3, 'MGSR', orth=False, tiny=True))
    if tier == 'quick': out.append(QR('float', 3, 'MGSR', orth=False))
    return out


def cfgs(tier): return main_cfgs(tier)
def bounds(tier): return {'R_zeros_and_QR=A': 'n <= 4 (quick) / 8', 'QtQ=I': 'n <= 2 (quick) / 4 attempted', 'pivoted': 'MGSRPiv n = 2 (quick) / 3, all pivot paths', 'outside': 'Householder (not implemented by the library); orthogonality for n >= 5; cond-dependent bounds'}
def mandatory(case_id, cfg_key): return False
def on_compile_fail(case, cfg, cf): return 'broken'
