"""C16 reductions, predicates and scalar-valued functions agree with their definitions."""
from .common import *
import z3, struct

ID = 'C16'
LEVEL = 'model_checking'
EXPLANATION = ('sum/product/min/max/norm/trace/inner/determinant and all_of/any_of/none_of/isequal/issymmetric on tensors and lazy expressions '
               'are compiled per ISA and executed symbolically (early-exit loops are forked path by path); z3 decides equality with the scalar '
               'fold for all element values: bit-vectors for ints/bools, exact reals + rounding depth for float sums/products/determinants, and '
               'for min/max the relational definition (result is an element and bounds every element) over IEEE comparisons for every sign pattern')
ASSUMPTIONS = ['min/max: no NaN operands', 'float sums/products/norm/determinant: exact-real identity, rounding depth <= 2n+2; overflow/NaN outside',
               'norm: sqrt purified (r*r = x, r >= 0)']

U_ = {'int': 'unsigned', 'long': 'unsigned long'}


class Red(Case):
    def __init__(s, name, T, n, ksrc, rsrc, args, dom, desc, **kw):
        Case.__init__(s, name, args, ksrc, rsrc, desc=desc, **kw)
        s.dom = dom; s.T = T; s.n = n; s.timeout = 20


FMAX = {32: 340282346638528859811704183484516925440, 64: int(1.7976931348623157e308)}


class MinMax(Case):
    """relational spec: result <= (>=) every element and equals some element.
    floats: decided in the real domain (IEEE order on finite non-NaN values is the order of the reals), inputs |x| <= FLT_MAX"""
    def __init__(s, T, n, which, expr=False):
        a = Buf('a', T, n); o = Buf('o', T, 1, 'out')
        arg = 'A' if not expr else '(A+A)'
        isf = T in FT
        def pre(V, n=n, w=CT[T][1]):
            if not isf: return []
            lim = z3.RealVal(FMAX[w]) / (2 if expr else 1)
            return [z3.And(V.el('a', i) <= lim, V.el('a', i) >= -lim) for i in range(n)]
        Case.__init__(s, f'{which}{"x" if expr else ""}_{SHORT[T]}_{n}', [a, o], f'Tensor<{T},{n}> A(a); o[0] = {which}({arg});', None,
                      desc=f'{which}({arg}) Tensor<{T},{n}>', pre=pre)
        s.dom = 'real' if isf else 'bits'; s.T = T; s.n = n; s.which = which; s.expr = expr; s.timeout = 30
        s.val_style = 'mixed'; s.name_ite = True; s.logic = 'QF_LRA' if isf else 'QF_BV'; s.order_only = not isf

    def path_obligations(s, mod, kp, stats):
        if kp.status != 'ok': return [Obl('status', z3.BoolVal(False), kp.pc, note='path ended with ' + kp.status)]
        rd = Reader(kp.dom); o = s.args[1]
        v = rd.elem(kp.bufs['o'], o, 0)
        if isinstance(v, Undef): return [Obl('o[0]', z3.BoolVal(False), kp.pc, note='result unwritten', kind='unwritten')]
        V = Vars(s); xs = [V.el('a', i) for i in range(s.n)]
        if s.expr: xs = [x + x for x in xs]
        if s.T in FT: r = rd.as_float(v, o.w).r
        else: r = bv(as_bits(v, o.w), o.w)
        le = (lambda x, y: x <= y) if s.which == 'min' else (lambda x, y: x >= y)
        if s.T in FT: return [Obl('bound', z3.And([le(r, x) for x in xs]), kp.pc), Obl('member', z3.Or([r == x for x in xs]), kp.pc)]
        # ints: one bound obligation per element (a single conjunction over a 32-lane comparator network stalls the bit-blasters)
        return [Obl(f'bound[{i}]', le(r, x), kp.pc) for i, x in enumerate(xs)] + [Obl('member', z3.Or([r == x for x in xs]), kp.pc)]

    def native_check(s, inp, rk, rr):
        a = s.args[0]; raw = inp['a']
        if a.kind == 'f':
            xs = list(struct.unpack('<%d%s' % (a.n, 'f' if a.w == 32 else 'd'), raw)); r = struct.unpack('<f' if a.w == 32 else '<d', rk['bufs']['o'])[0]
            if s.expr:
                import numpy as np
                xs = [float(np.float32(x) + np.float32(x)) if a.w == 32 else x + x for x in xs]
        else:
            xs = [sgn(int.from_bytes(raw[i * a.es:(i + 1) * a.es], 'little'), a.w) for i in range(a.n)]
            if s.expr: xs = [sgn(mask(2 * x, a.w), a.w) for x in xs]
            r = sgn(int.from_bytes(rk['bufs']['o'], 'little'), a.w)
        want = min(xs) if s.which == 'min' else max(xs)
        return None if r == want else f'{s.which} returned {r}, elements {xs[:8]}..., expected {want}'


def fold_ref(T, n, op, init, elem='a[i]'):
    if T in IT:
        return f'{T} s={init}; for(int i=0;i<{n};++i) s=({T})(({U_[T]})s {op} ({U_[T]})({elem})); o[0]=s;'
    return f'{T} s={init}; for(int i=0;i<{n};++i) s = s {op} ({elem}); o[0]=s;'


def det_ref(T, n):
    """cofactor expansion along the first row, fully unrolled by the generator"""
    def det(rows, cols):
        if len(rows) == 1: return f'a[{rows[0]}*{n}+{cols[0]}]'
        terms = []
        for k, c in enumerate(cols):
            sub = det(rows[1:], cols[:k] + cols[k + 1:])
            terms.append(f'{"-" if k % 2 else "+"} a[{rows[0]}*{n}+{c}]*({sub})')
        return ' '.join(terms)
    return f'o[0] = {det(list(range(n)), list(range(n)))};'


def cases(tier, cfg, seed):
    out = []
    sizes = [1, 2, 3, 4, 5, 7, 8, 9, 15, 16, 17, 31, 33] if tier == 'quick' else list(range(1, 18)) + [23, 24, 25, 31, 32, 33, 47, 48, 49, 63, 64, 65]
    for T in ALLT:
        isf = T in FT; dom = 'real' if isf else 'bits'
        A = lambda n=None: Buf('a', T, n)
        for n in sizes:
            tn = f'Tensor<{T},{n}> A(a);'
            out.append(Red(f'sum_{SHORT[T]}_{n}', T, n, f'{tn} o[0]=sum(A);', fold_ref(T, n, '+', 0), [Buf('a', T, n), Buf('o', T, 1, 'out')], dom, f'sum Tensor<{T},{n}>'))
            if n <= 17:
                out.append(Red(f'prod_{SHORT[T]}_{n}', T, n, f'{tn} o[0]=product(A);', fold_ref(T, n, '*', 1), [Buf('a', T, n), Buf('o', T, 1, 'out')], dom, f'product Tensor<{T},{n}>'))
            out.append(MinMax(T, n, 'min')); out.append(MinMax(T, n, 'max'))
            if n in ((5, 9, 17) if isf else (5,)): out.append(MinMax(T, n, 'min', True)); out.append(MinMax(T, n, 'max', True))
            if n in (3, 9, 17, 33):
                out.append(Red(f'inner_{SHORT[T]}_{n}', T, n, f'{tn} Tensor<{T},{n}> B(b); o[0]=inner(A,B);',
                               fold_ref(T, n, '+', 0, 'a[i]*b[i]' if isf else f'({T})(({U_[T]})a[i]*({U_[T]})b[i])'),
                               [Buf('a', T, n), Buf('b', T, n), Buf('o', T, 1, 'out')], dom, f'inner Tensor<{T},{n}>'))
                out.append(Red(f'sumx_{SHORT[T]}_{n}', T, n, f'{tn} Tensor<{T},{n}> B(b); o[0]=sum(A+B);',
                               fold_ref(T, n, '+', 0, 'a[i]+b[i]' if isf else f'({T})(({U_[T]})a[i]+({U_[T]})b[i])'),
                               [Buf('a', T, n), Buf('b', T, n), Buf('o', T, 1, 'out')], dom, f'sum(A+B) Tensor<{T},{n}>'))
            if isf and n in (1, 3, 4, 9):
                c = Red(f'norm_{SHORT[T]}_{n}', T, n, f'{tn} o[0]=norm(A);', f'{T} s=0; for(int i=0;i<{n};++i) s+=a[i]*a[i]; o[0]=std::sqrt(s);',
                        [Buf('a', T, n), Buf('o', T, 1, 'out')], 'real', f'norm Tensor<{T},{n}>')
                c.div = 'pure'; out.append(c)
        for m in ((2, 3, 4, 5, 9) if tier == 'quick' else range(1, 18)):
            tm = f'Tensor<{T},{m},{m}> A(a);'
            diag = 'a[i*%d+i]' % m
            out.append(Red(f'trace_{SHORT[T]}_{m}', T, m, f'{tm} o[0]=trace(A);', fold_ref(T, m, '+', 0, diag), [Buf('a', T, m * m), Buf('o', T, 1, 'out')], dom, f'trace {m}x{m} {T}'))
        if isf:
            for m in (2, 3, 4):
                out.append(Red(f'det_{SHORT[T]}_{m}', T, m, f'Tensor<{T},{m},{m}> A(a); o[0]=determinant(A);', det_ref(T, m),
                               [Buf('a', T, m * m), Buf('o', T, 1, 'out')], 'real', f'determinant {m}x{m} {T}'))
                out.append(Red(f'detlazy_{SHORT[T]}_{m}', T, m, f'Tensor<{T},{m},{m}> A(a); o[0]=det(A);', det_ref(T, m),
                               [Buf('a', T, m * m), Buf('o', T, 1, 'out')], 'real', f'det(A) {m}x{m} {T}'))
        # predicates on boolean expressions (early exit -> forked paths)
        for n in ((1, 3, 5, 9) if tier == 'quick' else (1, 2, 3, 4, 5, 8, 9, 16, 17)):
            for pred, init, comb, neg in (('all_of', 'true', '&', ''), ('any_of', 'false', '|', ''), ('none_of', 'false', '|', '!')):
                for cmpn, cop in (('lt', '<'), ('eq', '==')) if tier == 'quick' else (('lt', '<'), ('eq', '=='), ('ge', '>=')):
                    k = f'Tensor<{T},{n}> A(a), B(b); o[0] = {pred}(A {cop} B) ? 1 : 0;'
                    r = f'bool r={init}; for(int i=0;i<{n};++i) {{ bool t = a[i] {cop} b[i]; r = r {comb} t; }} o[0] = ({neg}r) ? 1 : 0;'
                    c = Red(f'{pred}_{cmpn}_{SHORT[T]}_{n}', T, n, k, r, [Buf('a', T, n), Buf('b', T, n), Buf('o', 'int', 1, 'out')], 'bits', f'{pred}(A {cop} B) n={n} {T}')
                    c.max_paths = 200; out.append(c)
        if isf:
            for n in (3,):
                k = f'Tensor<{T},{n}> A(a), B(b); o[0] = isequal(A,B,0.25) ? 1 : 0;'
                r = f'bool r=true; for(int i=0;i<{n};++i) {{ bool t = std::abs(a[i]-b[i]) < ({T})0.25; r = r & t; }} o[0]=r?1:0;'
                c = Red(f'isequal_{SHORT[T]}_{n}', T, n, k, r, [Buf('a', T, n), Buf('b', T, n), Buf('o', 'int', 1, 'out')], 'bits', f'isequal n={n} {T}')
                c.max_paths = 200; out.append(c)
            # requires_evaluation overload (lazy linalg arguments)
            k = f'Tensor<{T},2,2> A(a), B(b); o[0] = isequal(trans(A),B,0.25) ? 1 : 0;'
            r = f'bool r=true; for(int i=0;i<2;++i) for(int j=0;j<2;++j) {{ bool t = std::abs(a[j*2+i]-b[i*2+j]) < ({T})0.25; r = r & t; }} o[0]=r?1:0;'
            c = Red(f'isequalT_{SHORT[T]}_2', T, 4, k, r, [Buf('a', T, 4), Buf('b', T, 4), Buf('o', 'int', 1, 'out')], 'bits', f'isequal(trans(A),B) 2x2 {T}')
            c.max_paths = 200; out.append(c)
    return out


def cfgs(tier): return main_cfgs(tier)
def bounds(tier): return {'types': ALLT, 'outside': 'issymmetric/isorthogonal (tolerance predicates on arithmetic: FP feasibility queries too slow), LU/QR-based determinants (see C11/C13), complex'}
def mandatory(case_id, cfg_key): return False
def on_compile_fail(case, cfg, cf): return 'violation' if case.id.startswith(('min', 'max', 'prod')) else 'broken'


def post_case(c, cfg, r):
    if c.dom == 'real' and r.get('depth_max', 0) > 2 * c.n * (c.n if c.id.startswith('det') else 1) + 4:
        return [f'rounding depth {r["depth_max"]} too large']
    return []
