"""helpers shared by the property modules"""
from fsv import build
from fsv.build import Cfg
from fsv.case import *

FT = ['float', 'double']
IT = ['int', 'long']
ALLT = FT + IT


def dims(*d): return ','.join(str(x) for x in d)
def prod(ds):
    r = 1
    for d in ds: r *= d
    return r


def copy_out(var, out, n): return f'for(int i_=0;i_<{n};++i_) {out}[i_]={var}.data()[i_];'


def main_cfgs(tier, macros=()):
    isas = build.MAIN_ISAS if tier == 'quick' else build.ALL_ISAS
    return [Cfg(i, 17, 'O2', macros) for i in isas]


def dom_for(T): return 'real' if T in ('float', 'double', 'cfloat', 'cdouble') else 'bits'


def std_on_compile_fail(case, cfg, cf):
    """a harness that only uses documented API and fails to compile in one configuration is a C06 matter;
    for the property at hand the instantiation is inconclusive unless the module says otherwise"""
    return 'broken'
