"""C04 reading through an index or a slice returns exactly the selected elements."""
from .common import *
from .views_gen import *
import z3, itertools, random

ID = 'C04'
LEVEL = 'model_checking'
EXPLANATION = ('scalar indexing with symbolic (possibly negative) indices and slices with symbolic (first,last,step) per axis are executed '
               'symbolically on the compiled view code: addresses become solver terms, every reachable offset is enumerated by z3 and checked '
               'in-bounds, and each result element is decided equal to the element the documented range rule selects, for every admissible '
               'range at once; compile-time ranges (fseq/iseq/all/fix/first/last), mixtures and views inside expressions are enumerated from a '
               'generated family with symbolic data (bit-exact data movement)')
ASSUMPTIONS = ['dynamic ranges: step >= 1, normalised 0 <= first <= last <= N (negative v means v+N+1), selected count equals the destination extent',
               'scalar indices: -extent <= i < extent']


class Idx(Case):
    def __init__(s, T, shape):
        n = len(shape); sz = prod(shape); st = strides(shape)
        a = Buf('a', T, sz); o = Buf('o', T, 1, 'out')
        idx = [Scal(f'i{k}', 'int') for k in range(n)]
        k = f'Tensor<{T},{dims(*shape)}> A(a); o[0] = A({",".join(f"i{k}" for k in range(n))});'
        r = ' '.join(f'long j{k} = i{k}<0 ? i{k}+{shape[k]} : i{k};' for k in range(n)) + ' o[0] = a[' + '+'.join(f'j{k}*{st[k]}' for k in range(n)) + '];'
        def pre(V): return [c for k in range(n) for c in (V[f'i{k}'] >= -shape[k], V[f'i{k}'] < shape[k])]
        Case.__init__(s, f'idx_{SHORT[T]}_{"x".join(map(str, shape))}', [a, o] + idx, k, r, desc=f'A(i...) on Tensor<{T},{dims(*shape)}>', pre=pre)
        s.dom = 'bits'; s.max_paths = 64


class DynSlice(Case):
    """Tensor<T,n...> R = A(seq(f,l,s),...) [+ expression]"""
    def __init__(s, T, shape, oshape, expr=False):
        n = len(shape); sz = prod(shape); osz = prod(oshape); st = strides(shape); ost = strides(oshape)
        a = Buf('a', T, sz); o = Buf('o', T, osz, 'out'); sc = []
        for k in range(n): sc += [Scal(f'f{k}', 'int'), Scal(f'l{k}', 'int'), Scal(f's{k}', 'int')]
        seqs = ','.join(f'seq(f{k},l{k},s{k})' for k in range(n))
        args = [a, o] + sc
        if expr:
            b = Buf('b', T, osz); args = [a, b, o] + sc
            k = f'Tensor<{T},{dims(*shape)}> A(a); Tensor<{T},{dims(*oshape)}> B(b); Tensor<{T},{dims(*oshape)}> R = A({seqs}) + B; ' + copy_out('R', 'o', osz)
        else:
            k = f'Tensor<{T},{dims(*shape)}> A(a); Tensor<{T},{dims(*oshape)}> R = A({seqs}); ' + copy_out('R', 'o', osz)
        loops = ''.join(f'for(int j{k}=0;j{k}<{oshape[k]};++j{k}) ' for k in range(n))
        src = 'a[' + '+'.join(f'(F{k}+j{k}*s{k})*{st[k]}' for k in range(n)) + ']'
        oo = '+'.join(f'j{k}*{ost[k]}' for k in range(n))
        val = src if not expr else (f'{src}+b[{oo}]' if T in FT else f'({T})(({UT[T]}){src}+({UT[T]})b[{oo}])')
        r = ' '.join(f'long F{k} = {norm_c(f"f{k}", shape[k])};' for k in range(n)) + f' {loops} o[{oo}] = {val};'
        def pre(V):
            cs = []
            for k in range(n): cs += seq_pre(V, f'f{k}', f'l{k}', f's{k}', shape[k], oshape[k])
            return cs
        Case.__init__(s, f'dyn{"x" if expr else ""}_{SHORT[T]}_{"x".join(map(str, shape))}_to_{"x".join(map(str, oshape))}', args, k, r,
                      desc=f'R = A({seqs}){" + B" if expr else ""}: {shape} -> {oshape} {T}', pre=pre)
        s.dom = 'uf' if (expr and T in FT) else 'bits'; s.max_paths = 400; s.timeout = 20


def fs(F, L, S=1): return ('fseq', F, L, S)


def sel_of(spec, N):
    """indices selected on an axis of extent N by a compile-time range spec"""
    k = spec[0]
    if k == 'int': return [spec[1] if spec[1] >= 0 else spec[1] + N], True
    if k == 'all': return list(range(N)), False
    F, L, S = spec[1], spec[2], spec[3]
    if F < 0: F += N + 1
    if L < 0: L += N + 1
    return list(range(F, L, S)), False


def spec_cpp(spec):
    k = spec[0]
    if k == 'int': return str(spec[1])
    if k == 'all': return 'all'
    if k == 'fseq': return f'fseq<{spec[1]},{spec[2]},{spec[3]}>()'
    if k == 'iseq': return f'iseq<{spec[1]},{spec[2]},{spec[3]}>()'
    if k == 'seq': return f'seq({spec[1]},{spec[2]},{spec[3]})'
    raise ValueError(k)


class FixSlice(Case):
    """compile-time / mixed ranges with concrete parameters; data symbolic"""
    def __init__(s, T, shape, specs, expr=False):
        n = len(shape); sz = prod(shape); st = strides(shape)
        sels = [sel_of(sp, shape[k]) for k, sp in enumerate(specs)]
        oshape = [len(ix) for ix, dropped in sels if not dropped] or [1]
        keep = [k for k, (ix, dropped) in enumerate(sels) if not dropped]
        osz = prod(oshape)
        a = Buf('a', T, sz); o = Buf('o', T, osz, 'out')
        call = ','.join(spec_cpp(sp) for sp in specs)
        k = f'Tensor<{T},{dims(*shape)}> A(a); Tensor<{T},{dims(*oshape)}> R = A({call}){" + A(" + call + ")" if expr else ""}; ' + copy_out('R', 'o', osz)
        lines = []
        for oi, combo in enumerate(itertools.product(*[ix for ix, _ in sels])):
            off = sum(c * st[k2] for k2, c in enumerate(combo))
            v = f'a[{off}]'
            if expr: v = f'{v}+{v}' if T in FT else f'({T})(({UT[T]}){v}+({UT[T]}){v})'
            lines.append(f'o[{oi}]={v};')
        r = ' '.join(lines)
        nm = '_'.join((sp[0][0] + '_'.join(str(x).replace('-', 'm') for x in sp[1:])) for sp in specs)
        Case.__init__(s, f'fix{"x" if expr else ""}_{SHORT[T]}_{"x".join(map(str, shape))}_{nm}', [a, o], k, r, desc=f'R = A({call}) on {shape} {T}')
        s.dom = 'bits'


def fseq_family(N, tier):
    out = [('all',), fs(0, -1), fs(0, N), fs(1, N), fs(0, N - 1) if N > 1 else fs(0, 1), fs(0, N, 2), fs(1, N, 2) if N > 1 else fs(0, 1), fs(0, -1, 3), ('int', 0), ('int', N - 1), ('int', -1) if False else ('int', N - 1)]
    if N >= 4: out += [fs(1, N - 1), fs(N - 3, N), fs(-3, -1), fs(2, N, 3)]
    if tier != 'quick':
        for F in range(N):
            for L in range(F + 1, N + 1):
                for S in (1, 2, 3): out.append(fs(F, L, S))
    seen = [];
    for x in out:
        if x not in seen: seen.append(x)
    return seen


def cases(tier, cfg, seed):
    rng = random.Random(seed + 4)
    out = []; ids = set()
    def add(c):
        if c.id not in ids: ids.add(c.id); out.append(c)
    TS = ['double', 'float', 'int'] if tier == 'quick' else ALLT
    for T in TS:
        for shape in ([(7,), (3, 5), (2, 3, 4), (2, 2, 2, 3, 2)] if tier == 'quick' else [(1,), (7,), (16,), (3, 5), (4, 4), (2, 3, 4), (2, 2, 3, 2)]): add(Idx(T, shape))
        # dynamic 1-D: every destination extent n <= N
        for N in ((5, 9) if tier == 'quick' else (3, 5, 8, 9, 17)):
            for n in range(1, N + 1):
                if tier == 'quick' and N == 9 and n not in (1, 2, 3, 4, 5, 8, 9): continue
                add(DynSlice(T, (N,), (n,)))
        add(DynSlice(T, (9,), (4,), expr=True))
        # dynamic 2-D
        for shape, osh in ([((4, 9), (2, 4)), ((3, 8), (3, 8))] if tier == 'quick' else
                           [((4, 9), (2, 4)), ((5, 5), (3, 2)), ((3, 8), (3, 8)), ((4, 9), (4, 3)), ((9, 17), (4, 8)), ((5, 9), (5, 5)), ((6, 6), (2, 6)), ((8, 8), (4, 4))]):
            add(DynSlice(T, shape, osh))
        if tier != 'quick': add(DynSlice(T, (4, 9), (2, 4), expr=True))
        if T == 'double' and tier != 'quick': add(DynSlice(T, (3, 4, 5), (2, 2, 3)))
        # compile-time ranges 1-D
        for N in ((6, 9) if tier == 'quick' else (4, 6, 9, 17)):
            for sp in fseq_family(N, tier if N <= 6 else 'quick'):
                if sp[0] != 'int': add(FixSlice(T, (N,), [sp]))
        # 2-D combinations
        fam = fseq_family(4, 'quick'); fam2 = fseq_family(6, 'quick')
        combos = list(itertools.product(fam, fam2)); rng.shuffle(combos)
        for sp0, sp1 in combos[:30 if tier == 'quick' else 150]:
            if sp0[0] == 'int' and sp1[0] == 'int': continue
            add(FixSlice(T, (4, 6), [sp0, sp1]))
        for sp1 in (fs(0, 6, 2), fs(1, 4), fs(3, 6), ('all',)):
            for sp0 in (('all',), fs(0, -1), fs(0, 3), fs(1, 3)): add(FixSlice(T, (3, 6), [sp0, sp1]))
        # mixtures of dynamic-with-constants, iseq and fixed integers; views inside expressions
        add(FixSlice(T, (4, 6), [('seq', 1, 3, 1), fs(0, -1, 2)]))
        add(FixSlice(T, (4, 6), [('all',), ('seq', 0, 6, 3)]))
        add(FixSlice(T, (5, 8), [fs(1, 4), fs(0, 8)], expr=True))
        add(FixSlice(T, (9,), [fs(1, 9, 2)], expr=True))
        add(FixSlice(T, (3, 4, 5), [fs(0, 2), ('all',), fs(1, 5, 2)]))
        add(FixSlice(T, (3, 4, 5), [('int', 1), ('all',), ('all',)]))
        add(FixSlice(T, (2, 3, 2, 4), [('all',), fs(0, 2), ('all',), fs(0, 4, 2)]))
        # strided views long enough for a full 512-bit gather of 4-byte lanes (16) plus a remainder
        if T != 'double' or tier != 'quick':
            add(FixSlice(T, (40,), [fs(0, 40, 2)], expr=True)); add(FixSlice(T, (36,), [fs(1, 35, 2)]))
            add(FixSlice(T, (2, 54), [('all',), fs(0, 54, 3)], expr=True)); add(FixSlice(T, (60,), [('seq', 2, 59, 3)], expr=True))
    return out


def cfgs(tier): return main_cfgs(tier)
def bounds(tier): return {'dynamic_1d_parent': [5, 9] if tier == 'quick' else [3, 5, 8, 9, 17], 'ranks': '1-3 dynamic, 1-4 fixed',
                          'outside': 'diag views, iseq immediates, rank>=4 dynamic, parents beyond the listed extents'}
def mandatory(case_id, cfg_key): return False
def on_compile_fail(case, cfg, cf): return 'broken'
