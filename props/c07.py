"""C07 no operation touches memory outside its operands, for any shape or alignment; checked indexing raises; no allocation."""
from .common import *
from .views_gen import *
from .einsum_gen import strides
from . import c01, c02, c14, c16, c17, c20, c03
import z3, random

ID = 'C07'
LEVEL = 'model_checking'
EXPLANATION = ('every harness runs in a region memory model: each operand buffer is a separate region of exactly N*sizeof(T) bytes whose base is '
               'only known to be alignof(T)-aligned, each Fastor-owned tensor a region of sizeof(Tensor) bytes with the alignment the source '
               'declares; every load/store/masked access/memcpy is checked in-bounds (symbolic addresses by enumeration of all reachable '
               'offsets with z3) and its required alignment against gcd(guaranteed alignment, offset), which covers every placement 0..63 at '
               'once; with runtime checks on, unconstrained symbolic indices must reach the throw before any access; paths that return '
               'normally must not have executed operator new/malloc. Findings are replayed natively on guard-page buffers / under ASan')
ASSUMPTIONS = ['over-reads inside the alignment padding of a Fastor-owned tensor are legal (documented idiom)', 'tovector / operator<< exempt (not exercised)',
               'alignment findings that do not fault natively are listed separately (memory_findings_unconfirmed), not raised']


class Checked(Case):
    """A(i,j,...) with FASTOR_ENABLE_RUNTIME_CHECKS: out-of-range must raise before any access"""
    def __init__(s, T, shape, kind='tensor'):
        n = len(shape); sz = prod(shape); st = strides(shape)
        a = Buf('a', T, sz); o = Buf('o', T, 1, 'out'); idx = [Scal(f'i{k}', 'int') for k in range(n)]
        decl = f'Tensor<{T},{dims(*shape)}> A(a);' if kind == 'tensor' else f'TensorMap<{T},{dims(*shape)}> A(({T}*)a);'
        k = f'{decl} o[0] = A({",".join(f"i{k}" for k in range(n))});'
        Case.__init__(s, f'chk{kind[0]}_{SHORT[T]}_{"x".join(map(str, shape))}', [a, o] + idx, k, None, desc=f'checked A(i...) on {kind} {shape} {T}')
        s.dom = 'bits'; s.shape = shape; s.max_paths = 200
        s.pre_fn = lambda V: [c for k in range(n) for c in (V[f'i{k}'] >= -64, V[f'i{k}'] <= 64)]

    def path_obligations(s, mod, kp, stats):
        V = Vars(s); shape = s.shape
        inr = z3.And([z3.And(V[f'i{k}'] >= -shape[k], V[f'i{k}'] < shape[k]) for k in range(len(shape))])
        if kp.status == 'raised': return [Obl('raised=>out-of-range', z3.Not(inr), kp.pc)]
        if kp.status == 'ok':
            rd = Reader(kp.dom); v = rd.elem(kp.bufs['o'], s.args[1], 0)
            obl = [Obl('returned=>in-range', inr, kp.pc)]
            if isinstance(v, Undef): obl.append(Obl('o[0]', z3.BoolVal(False), kp.pc, kind='unwritten'))
            return obl
        return [Obl('status', z3.BoolVal(False), kp.pc, note='path ended with ' + kp.status)]

    def native_check(s, inp, rk, rr):
        idx = [sgn(inp[f'i{k}'], 32) for k in range(len(s.shape))]
        inr = all(-d <= i < d for i, d in zip(idx, s.shape))
        if rk.get('exc') and inr: return f'valid index {idx} raised'
        if not rk.get('exc') and not inr: return f'out-of-range index {idx} on {s.shape} did not raise'
        return None


def cases(tier, cfg, seed):
    rng = random.Random(seed + 7)
    if 'FASTOR_ENABLE_RUNTIME_CHECKS=1' in cfg.macros:
        out = []
        for T in ('double', 'int'):
            for shape in [(7,), (3, 5), (2, 3, 4), (2, 2, 5, 3)] + ([(2, 2, 2, 3, 2)] if tier != 'quick' else []):
                out.append(Checked(T, shape));
                if len(shape) <= 4: out.append(Checked(T, shape, 'map'))
        return out
    out = []
    odd = lambda *xs: any(x % 2 or x in (6, 10, 12) for x in xs)
    pool = []
    pool += [c for c in c01.cases('quick', cfg, seed) if odd(c.M, c.K, c.N) and max(c.M, c.K, c.N) >= 5]
    pool += [c for c in c02.cases('quick', cfg, seed) if c.n in (1, 3, 5, 7, 9, 15, 17, 31, 33)]
    pool += [c for c in c16.cases('quick', cfg, seed) if getattr(c, 'n', 0) in (1, 3, 5, 7, 9, 15, 17, 31, 33) and not c.id.startswith(('all_of', 'any_of', 'none_of', 'isequal'))]
    pool += [c for c in c14.cases('quick', cfg, seed) if c.id.startswith('transpose')]
    pool += [c for c in c17.cases('quick', cfg, seed) if odd(*[int(x) for x in c.id.split('_')[2:5]])]
    pool += [c for c in c03.cases('quick', cfg, seed)][::5]
    rng.shuffle(pool)
    out += pool[:260 if tier == 'quick' else 1500]
    # operand tensors WITHOUT tail padding (K*N*sizeof(T) a multiple of the storage alignment) around the masked / remainder
    # kernels of matmul: an over-read past the last row of B cannot hide in padding here
    for T, shp in (('double', [(5, 4, 22), (5, 4, 23), (6, 4, 22), (3, 4, 30), (5, 8, 11), (7, 4, 10)]), ('float', [(5, 8, 43), (5, 8, 42), (3, 8, 22), (6, 8, 13), (5, 16, 21)]),
                   ('int', [(5, 8, 43), (3, 8, 22)])):
        for (m, k, n) in shp: out.append(c01.MM(T, m, k, n, 'mm'))
    for T in (['double', 'float', 'int'] if tier == 'quick' else ALLT):
        for shape in ([(1,), (3,), (5,), (7,), (9,), (15,), (17,), (31,), (33,), (3, 5), (5, 7)] if tier == 'quick' else [(n,) for n in (1, 2, 3, 5, 7, 9, 11, 13, 15, 17, 31, 33, 63, 65)] + [(3, 5), (5, 7), (3, 3, 3), (7, 9)]):
            out += c20.map_ops(T, shape)
    ids = set(); res = []
    for c in out:
        if c.id not in ids: ids.add(c.id); res.append(c)
    return res


def cfgs(tier):
    c = main_cfgs(tier)
    return c + [Cfg('avx2', 17, 'O2', ('FASTOR_ENABLE_RUNTIME_CHECKS=1',))] + ([Cfg('sse2', 17, 'O2', ('FASTOR_ENABLE_RUNTIME_CHECKS=1',)), Cfg('avx512', 17, 'O2', ('FASTOR_ENABLE_RUNTIME_CHECKS=1',))] if tier != 'quick' else [])


def on_value(case, cfg, sat):
    # value obligations of borrowed harnesses belong to their own property; only the dedicated checked-index harnesses are judged here
    return 'judge' if case.id.startswith('chk') else 'ignore'


def post_case(c, cfg, r):
    if r.get('heap'): return [f'dynamic allocation on a normally returning path: {sorted(set(r["heap"]))}']
    return []


def bounds(tier): return {'corpus': 'odd-size harnesses borrowed from C01 C02 C03 C14 C16 C17 + TensorMap operations on sizes 1..33 + checked indexing rank 1-4', 'outside': 'stack exhaustion; shapes not explored'}
def mandatory(case_id, cfg_key): return False
def on_compile_fail(case, cfg, cf): return 'skip'
