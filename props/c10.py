"""C10 inverse(A) times A is the identity, for every size and computation type (within the reach of nonlinear real arithmetic)."""
from .common import *
from .linalg_gen import *

ID = 'C10'
LEVEL = 'model_checking'
EXPLANATION = ('inverse<InvCompType::X>(A), inv(A) and tinverse are compiled per ISA and executed symbolically over exact reals: closed-form '
               'kernels (n <= 4, including the hand-shuffled SSE/AVX ones) in fraction-free (num,den) form, LU-based strategies with purified '
               'divisions and three-address naming; z3 (QF_NRA, fresh solver per entry) decides A*X = I and X*A = I entry by entry FOR ALL '
               'matrices whose pivots/determinant are non-zero; pivoted strategies fork on the symbolic pivot comparisons. Above the sizes '
               'where NRA terminates only what was discharged is claimed (listed per run); the cond(A)-dependent stability constant is outside')
ASSUMPTIONS = ['exact real arithmetic: the n*eps*cond(A) constant is NOT derived (outside the claim); divisors/pivots non-zero',
               'pivoted strategies: one obligation set per explored pivot path (path budget stated in the evidence)']
STRATS = ['SimpleInv', 'SimpleInvPiv', 'BlockLU', 'BlockLUPiv', 'SimpleLU', 'SimpleLUPiv']


class Inv(Lin):
    def __init__(s, T, n, strat, form='inverse', tri=None):
        a = Buf('a', T, n * n); x = Buf('x', T, n * n, 'out')
        if tri:
            for i in range(n):
                for j in range(n):
                    if (tri == 'UniLower' and j > i) or (tri == 'Upper' and j < i): a.fixed[i * n + j] = 0
                    if tri == 'UniLower' and i == j: a.fixed[i * n + j] = 1
        tt = f'Tensor<{T},{n},{n}>'
        if form == 'inverse': call = f'inverse<InvCompType::{strat}>(A)'
        elif form == 'lazy': call = f'{tt}(inv(A))'
        elif form == 'default': call = 'inverse(A)'
        else: call = f'tinverse<InvCompType::SimpleInv,UpLoType::{tri}>(A)'
        k = f'{tt} A(a); {tt} X = {call}; ' + copy_out('X', 'x', n * n)
        closed = n <= 4 and strat in ('SimpleInv',) and form != 'tinverse'
        Lin.__init__(s, f'inv_{SHORT[T]}_{n}_{strat}_{form}{tri or ""}', T, [a, x], k, f'{call} on {tt}', div='frac' if closed else 'pure', nameall=not closed)
        s.n = n; s.tri = tri
        if 'Piv' in strat: s.max_paths = 60

    def path_obligations(s, mod, kp, stats):
        if kp.status != 'ok': return [Obl('status', z3.BoolVal(False), kp.pc, note='path ended with ' + kp.status)]
        n = s.n; dom = kp.dom; w = s.w
        A = s.mat(kp, 'a', n, n, symbolic_in=True); X = s.mat(kp, 'x', n, n)
        for i in range(n):
            for j in range(n):
                if (i * n + j) in s.args[0].fixed: A.rows[i][j] = cst(dom, w, s.args[0].fixed[i * n + j])
        if any(v is None for r in X.rows for v in r):
            return [Obl('x', z3.BoolVal(False), kp.pc, note='result element unwritten', kind='unwritten')]
        na = dom.nameall; dom.nameall = False
        AX = matmul_fm(dom, A, X, w); XA = matmul_fm(dom, X, A, w)
        dom.nameall = na
        tri = [(f'AX[{i},{j}]', AX[i, j], cst(dom, w, 1 if i == j else 0)) for i in range(n) for j in range(n)]
        tri += [(f'XA[{i},{j}]', XA[i, j], cst(dom, w, 1 if i == j else 0)) for i in range(n) for j in range(n)]
        return s.eqs(kp, tri)

    def native_check(s, inp, rk, rr):
        m = s.nat_mats(inp, rk); n = s.n; A = m['a'].reshape(n, n); X = m['x'].reshape(n, n)
        if not np.all(np.isfinite(A)) or np.linalg.cond(A) > 1e4: return None
        r = max(np.abs(A @ X - np.eye(n)).max(), np.abs(X @ A - np.eye(n)).max())
        return f'|A*X-I| = {r:.3g} for a matrix with cond {np.linalg.cond(A):.3g}' if not (r <= s.bound(n, np.linalg.cond(A))) else None


class InvBatch(Lin):
    """inverse over the trailing two axes of a higher-order tensor"""
    def __init__(s, T, lead, n):
        nb = prod(lead); a = Buf('a', T, nb * n * n); x = Buf('x', T, nb * n * n, 'out')
        tt = f'Tensor<{T},{dims(*lead)},{n},{n}>'
        k = f'{tt} A(a); {tt} X = inverse(A); ' + copy_out('X', 'x', nb * n * n)
        Lin.__init__(s, f'invbatch_{SHORT[T]}_{"x".join(map(str, lead))}_{n}', T, [a, x], k, f'batched inverse {tt}', div='frac', nameall=False)
        s.n = n; s.nb = nb

    def path_obligations(s, mod, kp, stats):
        if kp.status != 'ok': return [Obl('status', z3.BoolVal(False), kp.pc, note='path ended with ' + kp.status)]
        n, nb = s.n, s.nb; dom = kp.dom; w = s.w; rd = Reader(dom); xa = s.args[1]; tri = []
        for b in range(nb):
            A = FM(dom, [[FV(w, r=z3.Real(f'a{b * n * n + i * n + j}')) for j in range(n)] for i in range(n)])
            rows = []
            for i in range(n):
                row = []
                for j in range(n):
                    v = rd.elem(kp.bufs['x'], xa, b * n * n + i * n + j)
                    if isinstance(v, Undef): return [Obl(f'x[{b},{i},{j}]', z3.BoolVal(False), kp.pc, note='result element unwritten', kind='unwritten')]
                    row.append(rd.as_float(v, w))
                rows.append(row)
            AX = matmul_fm(dom, A, FM(dom, rows), w)
            tri += [(f'AX[{b}][{i},{j}]', AX[i, j], cst(dom, w, 1 if i == j else 0)) for i in range(n) for j in range(n)]
        return s.eqs(kp, tri)

    def native_check(s, inp, rk, rr):
        m = s.nat_mats(inp, rk); n = s.n
        for b in range(s.nb):
            A = m['a'][b * n * n:(b + 1) * n * n].reshape(n, n); X = m['x'][b * n * n:(b + 1) * n * n].reshape(n, n)
            if not np.all(np.isfinite(A)) or np.linalg.cond(A) > 1e4: continue
            if not np.all(np.isfinite(X)) or np.abs(A @ X - np.eye(n)).max() > s.bound(n, np.linalg.cond(A)): return f'matrix {b} of the batch: |A*X-I| = {np.abs(A @ X - np.eye(n)).max():.3g}'
        return None


def cases(tier, cfg, seed):
    out = []
    TS = ['double', 'float'] if tier != 'quick' else ['double', 'float']
    for T in TS:
        for n in (1, 2, 3, 4):
            for st in STRATS:
                if 'Piv' in st and n > (2 if (tier == 'quick' and st != 'SimpleInvPiv') else 3): continue
                if tier == 'quick' and n == 4 and st in ('BlockLU', 'SimpleLU'): continue        # LU-based n = 4: most entries stay unknown within the quick cap (thorough tier attempts them)
                if tier == 'quick' and n == 3 and st == 'SimpleInvPiv' and cfg.isa != 'avx2': continue
                if tier == 'quick' and T == 'float' and st not in ('SimpleInv',): continue
                out.append(Inv(T, n, st))
            out.append(Inv(T, n, 'SimpleInv', 'lazy')); out.append(Inv(T, n, 'SimpleInv', 'default'))
        for n in (() if tier == 'quick' else (5, 6, 7, 8)):
            for st in ('SimpleLU', 'BlockLU'):
                if T == 'float' and tier == 'quick': continue
                out.append(Inv(T, n, st))
        out.append(InvBatch(T, (3,), 2)); out.append(InvBatch(T, (2, 2), 2))
        if tier != 'quick': out.append(InvBatch(T, (2,), 3)); out.append(InvBatch(T, (2, 1, 2), 2))
        if T == 'double':
            for n in (() if tier == 'quick' else (5, 6, 8, 9)): out.append(Inv(T, n, 'SimpleInv', 'default'))
            for n in ((2, 3, 4, 5) if tier == 'quick' else (2, 3, 4, 5, 6, 8, 9, 12, 16)):
                for tri in ('UniLower', 'Upper'): out.append(Inv(T, n, 'SimpleInv', 'tinverse', tri))
    return out


def cfgs(tier): return main_cfgs(tier)
def bounds(tier): return {'closed_form': 'n <= 4 all strategies (pivoted: n <= 3, all pivot paths)', 'lu_based': 'n <= 4 (quick); 5..8 thorough', 'schur_default': 'n >= 5 thorough only (attempted)',
                          'triangular': 'n <= 5 (quick) .. 16', 'outside': 'recursion boundaries 8|9, 16|17, 32|33, 64|65 for values; batched inverse; the stability constant'}
def mandatory(case_id, cfg_key): return False
def on_compile_fail(case, cfg, cf): return 'broken'
