"""C08 SIMD vector types behave as independent scalar lanes (every (type, ABI) specialisation under each ISA)."""
from .common import *
import z3

ID = 'C08'
LEVEL = 'model_checking'
EXPLANATION = ('each SIMDVector<T,ABI> member / free function is wrapped, compiled to IR per ISA and executed with fully symbolic lanes, '
               'scalars, masks and destination contents; z3 decides lane i == scalar op on lane i (IEEE bit-precise for floats, bit-vectors '
               'for ints) for all lane values at once; horizontal float folds in exact reals + rounding depth; masked forms are additionally '
               'run on truncated buffers so that touching a disabled lane is an out-of-bounds access in the region model')
ASSUMPTIONS = ['min/max/minimum/maximum: operands not NaN, +0 and -0 compare equal (IEEE equality, not bit equality)',
               'integer division: divisor != 0 and not INT_MIN/-1', 'rcp/rsqrt: modelled as uninterpreted hardware instruction (only lane-wise independence decided)',
               'float horizontal sum/product/dot: exact-real identity with rounding depth <= 2*lanes']

ABIS = {'scalar': ['scalar'], 'sse2': ['scalar', 'sse'], 'sse4': ['sse'], 'avx': ['sse', 'avx'], 'avx2': ['scalar', 'sse', 'avx'], 'avx512': ['sse', 'avx', 'avx512']}
BITS = {'scalar': 0, 'sse': 128, 'avx': 256, 'avx512': 512}
CT_ = {'float': 'float', 'double': 'double', 'int': 'int32_t', 'long': 'int64_t'}


def lanes(T, abi):
    w = CT[T][1]
    return 1 if abi == 'scalar' else BITS[abi] // w


class SV(Case):
    def __init__(s, T, abi, op, ksrc, rsrc, args, dom='bits', pre=None, extra=''):
        Case.__init__(s, f'sv_{SHORT[T]}_{abi}_{op}{extra}', args, ksrc, rsrc, desc=f'SIMDVector<{T},{abi}> {op}{extra}', pre=pre)
        s.dom = dom; s.T = T; s.abi = abi; s.op = op
        s.timeout = 20
        if 'mask' in op: s.max_paths = 700


def mk(T, abi, tier):
    L = lanes(T, abi); V = f'SIMDVector<{CT_[T]},simd_abi::{abi}>'
    isf = T in FT; out = []
    def A(n=L, nm='a', al=None): return Buf(nm, T, n, 'in', al)
    def O(n=L, al=None, role='out'): return Buf('o', T, n, role, al)
    ld = lambda nm: f'{V} {nm.upper()}({nm},false);'
    st = 'R.store(o,false);'
    loop = lambda body: f'for(int i=0;i<{L};++i) {{ {body} }}'
    def add(op, k, r, args, **kw): out.append(SV(T, abi, op, k, r, args, **kw))
    # --- data movement
    add('loadstore_u', f'{V} R(a,false); {st}', loop('o[i]=a[i];'), [A(), O()])
    add('loadstore_a', f'{V} R; R.load(a,true); R.store(o,true);', loop('o[i]=a[i];'), [A(al=max(L * CT[T][1] // 8, CT[T][1] // 8)), O(al=max(L * CT[T][1] // 8, CT[T][1] // 8))])
    add('aligned_ls', f'{V} R; R.aligned_load(a); R.aligned_store(o);', loop('o[i]=a[i];'), [A(al=max(L * CT[T][1] // 8, CT[T][1] // 8)), O(al=max(L * CT[T][1] // 8, CT[T][1] // 8))])
    add('bcast_ctor', f'{V} R(a[0]); {st}', loop('o[i]=a[0];'), [A(1), O()])
    add('assign_scalar', f'{V} R; R = a[0]; {st}', loop('o[i]=a[0];'), [A(1), O()])
    add('set1', f'{V} R; R.set(a[0]); {st}', loop('o[i]=a[0];'), [A(1), O()])
    add('broadcast', f'{V} R; R.broadcast(a); {st}', loop('o[i]=a[0];'), [A(1), O()])
    add('default_zero', f'{V} R; {st}', loop('o[i]=0;'), [A(1), O()])
    add('reverse', f'{ld("a")} {V} R = A.reverse(); {st}', loop(f'o[i]=a[{L}-1-i];'), [A(), O()])
    add('index', f'{ld("a")} ' + loop('o[i]=A[i];'), loop('o[i]=a[i];'), [A(), O()])
    if not isf or True:
        out.append(_fpeq(SV(T, abi, 'set_seq', f'{V} R; R.set_sequential(a[0]); {st}', loop(f'o[i]=a[0]+({T})i;'), [A(1), O()], pre=(lambda V_: V_.finite('a')) if isf else None)))
    # --- unary
    add('neg', f'{ld("a")} {V} R = -A; {st}', loop('o[i]=-a[i];'), [A(), O()])
    add('abs', f'{ld("a")} {V} R = abs(A); {st}', loop('o[i]=a[i]<0?-a[i]:a[i];' if not isf else 'o[i]=std::fabs(a[i]);'), [A(), O()])
    if isf:
        add('sqrt', f'{ld("a")} {V} R = sqrt(A); {st}', loop('o[i]=std::sqrt(a[i]);'), [A(), O()])
    # --- binary, all operand forms
    for nm, c in (('add', '+'), ('sub', '-'), ('mul', '*'), ('div', '/')):
        pre = None
        if c == '/' and not isf:
            w = CT[T][1]
            def pre(V_, n=L, w=w, names=('b',)):
                cs = []
                for i in range(n):
                    cs.append(V_.el('b', i) != 0)
                    cs.append(z3.Not(z3.And(V_.el('a', i) == (1 << (w - 1)), V_.el('b', i) == mask(-1, w))))
                return cs
            def pre_s(V_, n=L, w=w):
                cs = [V_.el('b', 0) != 0]
                for i in range(n): cs.append(z3.Not(z3.And(V_.el('a', i) == (1 << (w - 1)), V_.el('b', 0) == mask(-1, w))))
                return cs
            def pre_r(V_, n=L, w=w):
                cs = []
                for i in range(n):
                    cs.append(V_.el('b', i) != 0); cs.append(z3.Not(z3.And(V_.el('a', 0) == (1 << (w - 1)), V_.el('b', i) == mask(-1, w))))
                return cs
        else: pre_s = pre_r = None
        add(f'{nm}_vv', f'{ld("a")} {ld("b")} {V} R = A {c} B; {st}', loop(f'o[i]=a[i]{c}b[i];'), [A(), A(nm='b'), O()], pre=pre)
        add(f'{nm}_vs', f'{ld("a")} {V} R = A {c} b[0]; {st}', loop(f'o[i]=a[i]{c}b[0];'), [A(), A(1, 'b'), O()], pre=pre_s)
        add(f'{nm}_sv', f'{ld("b")} {V} R = a[0] {c} B; {st}', loop(f'o[i]=a[0]{c}b[i];'), [A(1), A(nm='b'), O()], pre=pre_r)
        add(f'{nm}_ip_v', f'{ld("a")} {ld("b")} A {c}= B; A.store(o,false);', loop(f'o[i]=a[i]{c}b[i];'), [A(), A(nm='b'), O()], pre=pre)
        add(f'{nm}_ip_s', f'{ld("a")} A {c}= b[0]; A.store(o,false);', loop(f'o[i]=a[i]{c}b[0];'), [A(), A(1, 'b'), O()], pre=pre_s)
    # --- fma family (fused iff the ISA has FMA, as the scalar std::fma)
    fr = lambda e_f, e_n: f'\n#ifdef __FMA__\n{loop(e_f)}\n#else\n{loop(e_n)}\n#endif\n' if (isf and abi != 'scalar') else loop(e_n)
    add('fmadd', f'{ld("a")} {ld("b")} {ld("c")} {V} R = fmadd(A,B,C); {st}', fr('o[i]=std::fma(a[i],b[i],c[i]);', 'o[i]=a[i]*b[i]+c[i];'), [A(), A(nm='b'), A(nm='c'), O()])
    add('fmsub', f'{ld("a")} {ld("b")} {ld("c")} {V} R = fmsub(A,B,C); {st}', fr('o[i]=std::fma(a[i],b[i],-c[i]);', 'o[i]=a[i]*b[i]-c[i];'), [A(), A(nm='b'), A(nm='c'), O()])
    add('fnmadd', f'{ld("a")} {ld("b")} {ld("c")} {V} R = fnmadd(A,B,C); {st}', fr('o[i]=std::fma(-a[i],b[i],c[i]);', 'o[i]=c[i]-a[i]*b[i];'), [A(), A(nm='b'), A(nm='c'), O()])
    # --- lane-wise min / max
    nn = (lambda V_: V_.nonan('a', 'b')) if isf else None
    for nm, c in (('min', '<'), ('max', '>')):
        cs = SV(T, abi, f'{nm}_vv', f'{ld("a")} {ld("b")} {V} R = {nm}(A,B); {st}', loop(f'o[i]=a[i]{c}b[i]?a[i]:b[i];'), [A(), A(nm='b'), O()], pre=nn)
        cs.fcompare = 'fpeq'; out.append(cs)
    # --- horizontal
    hd = 'real' if isf else 'bits'
    add('hsum', f'{ld("a")} o[0]=A.sum();', f'{T} s=0; for(int i=0;i<{L};++i) s+=a[i]; o[0]=s;', [A(), O(1)], dom=hd)
    add('hprod', f'{ld("a")} o[0]=A.product();', f'{T} s=1; for(int i=0;i<{L};++i) s*=a[i]; o[0]=s;', [A(), O(1)], dom=hd)
    add('dot', f'{ld("a")} {ld("b")} o[0]=A.dot(B);', f'{T} s=0; for(int i=0;i<{L};++i) s+=a[i]*b[i]; o[0]=s;', [A(), A(nm='b'), O(1)], dom=hd)
    nn1 = (lambda V_: V_.nonan('a')) if isf else None
    for nm, c in (('minimum', '<'), ('maximum', '>')):
        cs = SV(T, abi, nm, f'{ld("a")} o[0]=A.{nm}();', f'{T} m=a[0]; for(int i=1;i<{L};++i) m = a[i]{c}m?a[i]:m; o[0]=m;', [A(), O(1)], pre=nn1)
        cs.fcompare = 'fpeq'; out.append(cs)
    # --- masked forms: symbolic mask over a full buffer (values), prefix masks over truncated buffers (memory)
    if abi != 'scalar':
        mt = 'uint16_t' if L > 8 else 'uint8_t'
        msk = Scal('m', 'int')
        mpre = lambda V_, L=L: [z3.ULT(V_['m'], z3.BitVecVal(1 << L, 32))]
        add('mask_load', f'{V} R; R.mask_load(a,({mt})m,false); {st}', loop(f'{T} x_=a[i]; o[i]=((m>>i)&1)?x_:({T})0;'), [A(), O(), msk], pre=mpre)
        add('mask_store', f'{ld("a")} A.mask_store(o,({mt})m,false);', loop(f'{T} x_=a[i]; {T} y_=o[i]; o[i]=((m>>i)&1)?x_:y_;'), [A(), O(role='inout'), msk], pre=mpre)
        ks = sorted(set([1, L // 2, L - 1]) - {0}) if tier == 'quick' else range(1, L)
        for k in ks:
            mv = (1 << k) - 1
            add('mask_load_trunc', f'{V} R; R.mask_load(a,({mt}){mv},false); {st}', f'for(int i=0;i<{L};++i) o[i]= i<{k} ? a[i] : 0;', [A(k), O()], extra=f'_{k}')
            add('mask_store_trunc', f'{ld("a")} A.mask_store(o,({mt}){mv},false);', f'for(int i=0;i<{k};++i) o[i]=a[i];', [A(), O(k, role='inout')], extra=f'_{k}')
    return out


def mk_complex(T, abi):
    """complex vector types: interleaved load/store, + - * with vector and scalar operands, negation, conj, horizontal sum"""
    w = CT[T][1]; L = 1 if abi == 'scalar' else BITS[abi] // w; X = cxx(T); V = f'SIMDVector<{X},simd_abi::{abi}>'
    A = lambda nm='a', n=L: Buf(nm, T, n); O = lambda n=L: Buf('o', T, n, 'out')
    ld = lambda nm: f'{V} {nm.upper()}({nm},false);'; st = 'R.store(o,false);'
    loop = lambda body: f'for(int i=0;i<{L};++i) {{ {body} }}'
    out = []
    def add(op, k, r, args): out.append(SV(T, abi, op, k, r, args, dom='real'))
    add('loadstore_u', f'{V} R(a,false); {st}', loop('o[i]=a[i];'), [A(), O()])
    for nm, cop in (('add', '+'), ('sub', '-'), ('mul', '*')):
        add(f'{nm}_vv', f'{ld("a")} {ld("b")} {V} R = A {cop} B; {st}', loop(f'o[i]=a[i]{cop}b[i];'), [A(), A('b'), O()])
    add('mul_vs', f'{ld("a")} {V} R = A * b[0]; {st}', loop('o[i]=a[i]*b[0];'), [A(), A('b', 1), O()])
    add('neg', f'{ld("a")} {V} R = -A; {st}', loop('o[i]=-a[i];'), [A(), O()])
    add('bcast_ctor', f'{V} R(a[0]); {st}', loop('o[i]=a[0];'), [A('a', 1), O()])
    add('conj', f'{ld("a")} {V} R = conj(A); {st}', loop('o[i]=std::conj(a[i]);'), [A(), O()])
    # in-place forms and division (reference: the textbook quotient (a*conj(b))/|b|^2 written on components, no libcall)
    R_ = T[1:]
    for nm, cop in (('add', '+'), ('sub', '-'), ('mul', '*')):
        add(f'{nm}_ip', f'{ld("a")} {ld("b")} A {cop}= B; A.store(o,false);', loop(f'o[i]=a[i]{cop}b[i];'), [A(), A('b'), O()])
    add('mul_ip_s', f'{ld("a")} A *= b[0]; A.store(o,false);', loop('o[i]=a[i]*b[0];'), [A(), A('b', 1), O()])
    quo = lambda x, y: (f'{{ {R_} ar={x}.real(), ai={x}.imag(), br={y}.real(), bi={y}.imag(); {R_} d=br*br+bi*bi; o[i]={X}((ar*br+ai*bi)/d,(ai*br-ar*bi)/d); }}')
    add('div_vv', f'{ld("a")} {ld("b")} {V} R = A / B; {st}', loop(quo('a[i]', 'b[i]')), [A(), A('b'), O()])
    add('div_ip', f'{ld("a")} {ld("b")} A /= B; A.store(o,false);', loop(quo('a[i]', 'b[i]')), [A(), A('b'), O()])
    add('div_vs', f'{ld("a")} {V} R = A / b[0]; {st}', loop(quo('a[i]', 'b[0]')), [A(), A('b', 1), O()])
    add('div_ip_s', f'{ld("a")} A /= b[0]; A.store(o,false);', loop(quo('a[i]', 'b[0]')), [A(), A('b', 1), O()])
    add('hsum', f'{ld("a")} o[0]=A.sum();', f'{X} s=0; for(int i=0;i<{L};++i) s+=a[i]; o[0]=s;', [A(), O(1)])
    return out


def cases(tier, cfg, seed):
    out = []
    for abi in ABIS[cfg.isa]:
        for T in ALLT:
            out += mk(T, abi, tier)
        for T in ('cfloat', 'cdouble'): out += mk_complex(T, abi)
    return out


def cfgs(tier): return [Cfg(i, 17, 'O2') for i in (build.MAIN_ISAS if tier == 'quick' else build.ALL_ISAS)]


def bounds(tier):
    return {'types': ALLT, 'abis_per_isa': ABIS, 'ops_per_specialisation': len(mk('float', 'sse', tier)),
            'outside': 'complex abs / arg / norm, scalar-by-vector complex division, shift(), multi-argument set(), cast<>, rcp/rsqrt accuracy, fixed_size<N> generic vectors of other element types'}


def on_compile_fail(case, cfg, cf): return 'skip'


def mandatory(case_id, cfg_key): return False


def post_case(c, cfg, r):
    if c.dom == 'real' and c.T in ALLT and r.get('depth_max', 0) > 2 * lanes(c.T, c.abi) + 1:
        return [f'rounding depth {r["depth_max"]} exceeds 2*lanes']
    return []


def _fpeq(c):
    c.fcompare = 'fpeq'; return c
