import sys, time, json
from fsv import build, batch
from fsv.case import *

def mm_case(T, M, K, N, dom):
    a = Buf('a', T, M*K); b = Buf('b', T, K*N); c = Buf('c', T, M*N, 'out')
    ksrc = f'Tensor<{T},{M},{K}> A(a); Tensor<{T},{K},{N}> B(b); Tensor<{T},{M},{N}> C = matmul(A,B); for(int i=0;i<{M*N};++i) c[i]=C.data()[i];'
    rsrc = f'for(int i=0;i<{M};++i) for(int j=0;j<{N};++j){{ {T} s=0; for(int k=0;k<{K};++k) s+=a[i*{K}+k]*b[k*{N}+j]; c[i*{N}+j]=s; }}'
    cs = Case(f'mm_{SHORT[T]}_{M}_{K}_{N}', [a,b,c], ksrc, rsrc)
    cs.dom = dom
    return cs
cases = []
for T in ('float','double','int','long long'):
    for (M,K,N) in [(3,3,3),(2,3,5),(7,5,9),(1,4,1),(4,1,4)]:
        cases.append(mm_case(T,M,K,N,'real' if T in ('float','double') else 'bits'))
isa = sys.argv[1] if len(sys.argv)>1 else 'avx2'
out = batch.run_batch('smoke', cases, build.Cfg(isa), {'serial': len(sys.argv)>2})
for r in out['results']:
    print(r['id'], r['status'], r.get('obligations'), r.get('discharged'), 'sat', len(r.get('sat',[])), 'unk', len(r.get('unknown',[])), 'mem', len(r.get('mem',[])), r.get('error','')[:300], 'steps', r.get('steps'), round(r.get('wall',0),2))
    for s in r.get('sat',[])[:2]: print('   SAT', s['label'], s.get('replay'))
print({k:v for k,v in out.items() if k!='results'})
