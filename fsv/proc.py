"""subprocess helpers that capture output through temporary FILES instead of pipes.

The checker runs several configurations in threads of one process and each thread forks pool workers; a forked worker
inherits every pipe end that is open at that moment (O_CLOEXEC only helps across exec), so a child's stdout pipe can stay
open after the child has exited and communicate() blocks until an unrelated worker ends (observed: the native driver of one
configuration 'timing out' after 120 s while finishing in milliseconds).  With files, completion is detected by wait()."""
import subprocess, tempfile


class Result:
    def __init__(s, rc, out, err): s.returncode = rc; s.stdout = out; s.stderr = err


class Bg:
    def __init__(s, cmd, input=None):
        s.fo = tempfile.TemporaryFile('w+'); s.fe = tempfile.TemporaryFile('w+'); s.fi = None
        if input is not None:
            s.fi = tempfile.TemporaryFile('w+'); s.fi.write(input); s.fi.flush(); s.fi.seek(0)
        s.p = subprocess.Popen(cmd, stdin=s.fi if s.fi is not None else subprocess.DEVNULL, stdout=s.fo, stderr=s.fe)

    def finish(s, timeout=None):
        try:
            rc = s.p.wait(timeout)
        except subprocess.TimeoutExpired:
            s.p.kill(); s.p.wait(); s._close(); raise
        s.fo.seek(0); s.fe.seek(0)
        r = Result(rc, s.fo.read(), s.fe.read()); s._close()
        return r

    def communicate(s):
        r = s.finish(); s.returncode = r.returncode
        return r.stdout, r.stderr

    def _close(s):
        for f in (s.fo, s.fe, s.fi):
            if f is not None:
                try: f.close()
                except Exception: pass


def run(cmd, input=None, timeout=None):
    return Bg(cmd, input).finish(timeout)
