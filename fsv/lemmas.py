"""the structural normalisations used by the bits-domain encoder, re-proved by the solver (binary16, all values)"""
import z3, time


def prove_all(sort=None):
    S = sort or z3.Float16(); R = z3.RNE()
    x, y = z3.FP('x', S), z3.FP('y', S)
    same = lambda a, b: z3.Or(a == b, z3.And(z3.fpIsNaN(a), z3.fpIsNaN(b)))
    L = {
        'x-y = x+(-y)': same(z3.fpSub(R, x, y), z3.fpAdd(R, x, z3.fpNeg(y))),
        '(-x)*y = -(x*y)': same(z3.fpMul(R, z3.fpNeg(x), y), z3.fpNeg(z3.fpMul(R, x, y))),
        '(-x)*(-y) = x*y': same(z3.fpMul(R, z3.fpNeg(x), z3.fpNeg(y)), z3.fpMul(R, x, y)),
        '(-x)/y = -(x/y)': same(z3.fpDiv(R, z3.fpNeg(x), y), z3.fpNeg(z3.fpDiv(R, x, y))),
        'x/(-y) = -(x/y)': same(z3.fpDiv(R, x, z3.fpNeg(y)), z3.fpNeg(z3.fpDiv(R, x, y))),
        'x+y = y+x': same(z3.fpAdd(R, x, y), z3.fpAdd(R, y, x)),
        'x*y = y*x': same(z3.fpMul(R, x, y), z3.fpMul(R, y, x)),
        'fma(-x,y,z) = fma(x,-y,z)': same(z3.fpFMA(R, z3.fpNeg(x), y, z3.FP('z', S)), z3.fpFMA(R, x, z3.fpNeg(y), z3.FP('z', S))),
        '-(-x) = x': same(z3.fpNeg(z3.fpNeg(x)), x),
        'xor signbit = fneg': z3.fpToIEEEBV(z3.fpNeg(x)) == (z3.fpToIEEEBV(x) ^ z3.BitVecVal(0x8000, 16)) if sort is None else z3.BoolVal(True),
        'and 0x7fff = fabs': z3.fpToIEEEBV(z3.fpAbs(x)) == (z3.fpToIEEEBV(x) & z3.BitVecVal(0x7fff, 16)) if sort is None else z3.BoolVal(True),
    }
    out = {}
    for k, f in L.items():
        s = z3.Solver(); s.set('timeout', 60000)
        if 'xor' in k or 'and 0x' in k: s.add(z3.Not(z3.fpIsNaN(x)))
        s.add(z3.Not(f)); t = time.time(); r = s.check(); out[k] = (str(r), round(time.time() - t, 2))
    return out


if __name__ == '__main__':
    r = prove_all()
    for k, v in r.items(): print(k, v)
    import sys
    sys.exit(0 if all(v[0] == 'unsat' for v in r.values()) else 1)
