"""./check <PROPERTY> --tier quick|thorough   (exit 0 held / 1 VIOLATION / 2 check broken)"""
import os, sys, json, time, importlib, re, shutil, argparse, subprocess, random, resource
from . import build, batch, runner, smt
from .case import *

VERIF = build.VERIF
KNOWN = os.path.join(VERIF, 'known_findings.json')


def load_known():
    if not os.path.exists(KNOWN): return {'findings': [], 'fixed': []}
    return json.load(open(KNOWN))


def match_known(known, prop, case_id, cfg_key, label=''):
    for f in known['findings']:
        if f['property'] != prop: continue
        m = f['match']
        if re.fullmatch(m.get('case', '.*'), case_id) and re.fullmatch(m.get('cfg', '.*'), cfg_key) and re.fullmatch(m.get('label', '.*'), label or ''):
            return f
    return None


def write_replay(prop, case, cfg, kind, detail, src_path, inp=None):
    d = os.path.join(VERIF, 'replays', prop, f'{case.id}__{cfg.key()}')
    os.makedirs(d, exist_ok=True)
    src = runner.tu_source([case], getattr(case, 'extra_prelude', '')) + runner.driver_source([case])
    open(os.path.join(d, 'harness.cpp'), 'w').write(src)
    flags = [f.replace(build.FASTOR_ROOT, '${FASTOR_ROOT:-/repo}') for f in cfg.flags()]
    json.dump({'property': prop, 'case': case.id, 'desc': case.desc, 'cfg': cfg.key(), 'kind': kind, 'detail': detail, 'input': inp,
               'dom': getattr(case, 'dom', 'bits'), 'has_ref': case.ref_src is not None,
               'args': [{'name': a.name, 'scalar': isinstance(a, Scal), 'role': a.role, 'es': getattr(a, 'es', 8), 'n': getattr(a, 'n', 1), 'kind': a.kind, 'w': a.w} for a in case.args]},
              open(os.path.join(d, 'finding.json'), 'w'), indent=1)
    line = ''
    if inp is not None:
        toks = ['0', 'k', '-1'] + [(('%x' % inp[a.name]) if isinstance(a, Scal) else inp[a.name]) for a in case.args]
        line = ' '.join(toks)
        open(os.path.join(d, 'input_k.txt'), 'w').write(line + '\n')
        open(os.path.join(d, 'input_r.txt'), 'w').write(' '.join(['0', 'r'] + toks[2:]) + '\n')
    sh = ['#!/bin/sh', '# rebuilds the harness against the current tree (FASTOR_ROOT, default /repo) and replays the counterexample:',
          '# exit 1 = reproduced (kernel crashes on guard-page buffers, or kernel and reference outputs differ), exit 0 = not reproduced',
          'cd "$(dirname "$0")"', 'B=$(mktemp /tmp/fsv_replay_XXXXXX)',
          'clang++-14 ' + ' '.join(flags) + ' -o $B harness.cpp || { echo "REPRODUCED: harness does not compile in this configuration"; rm -f $B; exit 1; }',
          '[ -f input_k.txt ] || { echo "harness compiles on this tree: not reproduced"; rm -f $B; exit 0; }',
          'K=$($B < input_k.txt); kc=$?', 'echo "kernel   : $K"']
    if case.ref_src is not None: sh += ['R=$($B < input_r.txt)', 'echo "reference: $R"']
    sh += ['rm -f $B', 'if [ $kc -ne 0 ]; then echo "REPRODUCED: kernel run died with status $kc (buffers are flush against guard pages)"; exit 1; fi']
    if case.ref_src is not None:
        sh += ['if [ "$K" != "$R" ]; then echo "REPRODUCED: kernel and reference outputs differ (hex, little-endian elements' + ('; exact-real domain: compare numerically' if getattr(case, 'dom', '') == 'real' else '') + ')"; exit 1; fi']
    sh += ['echo "not reproduced on this tree"; exit 0']
    open(os.path.join(d, 'replay.sh'), 'w').write('\n'.join(sh) + '\n'); os.chmod(os.path.join(d, 'replay.sh'), 0o755)
    return d


def run_property(pm, tier, seed, only_cfg=None, only_case=None, jobs=None):
    """returns (exit_code, evidence dict, lines)"""
    t0 = time.time(); known = load_known(); prop = pm.ID
    lines = []; viol = []; known_hit = {}; inconcl = []; broken = []
    agg = {'programs': 0, 'obligations': 0, 'discharged': 0, 'unknown': 0, 'paths': 0, 'steps': 0, 'validated': 0, 'val_mismatch': 0,
           'sat_confirmed': 0, 'sat_unconfirmed': 0, 'compile_fail': 0, 'solver_s': 0.0, 'queries': 0, 'mem_checked': 0, 'cases_ok': 0,
           'structural': 0, 'depth_max': 0, 'gxx_diff': 0}
    mem_unconfirmed = []; slow = []
    funcs = set(); intr = set(); stubs = set(); libm = set(); samples = []; cfgkeys = []; compile_matrix = {}; per_cfg = {}
    opts_base = {'seed': seed, 'timeout': getattr(pm, 'TIMEOUT', {}).get(tier, 10), 'nval': 2 if tier == 'quick' else 3}
    opts_base.update(getattr(pm, 'OPTS', {}))
    # configurations are independent programs: run up to PAR of them concurrently (their slow tails overlap);
    # each batch owns a process pool, the threads here only wait for them
    work = []
    for cfg in pm.cfgs(tier):
        if only_cfg and not re.fullmatch(only_cfg, cfg.key()): continue
        cases = pm.cases(tier, cfg, seed)
        if only_case: cases = [c for c in cases if re.fullmatch(only_case, c.id)]
        if not cases: continue
        work.append((cfg, cases))
    PAR = min(int(os.environ.get('FSV_PAR_CFG', '3')), max(1, len(work)))
    if PAR > 1: batch.NPROC = max(6, (int(os.environ.get('FSV_JOBS', '16')) * 3 // 2) // PAR)
    from concurrent.futures import ThreadPoolExecutor
    with ThreadPoolExecutor(PAR) as tp:
        futs = [tp.submit(batch.run_batch, f'{prop}_{tier}', cases, cfg, opts_base, getattr(pm, 'PRELUDE', '')) for cfg, cases in work]
        outs = [f.result() for f in futs]
    for (cfg, cases), out in zip(work, outs):
        cfgkeys.append(cfg.key())
        byid = {c.id: c for c in cases}
        per_cfg[cfg.key()] = {'cases': len(cases), 'wall_s': round(out.get('wall', 0), 1), 'compile_s': round(out.get('compile_s', 0), 1)}
        for cf in out['compile_fail']:
            agg['compile_fail'] += 1
            compile_matrix.setdefault(cf['id'], {})[cfg.key()] = cf['msg']
            c = byid[cf['id']]
            verdict = pm.on_compile_fail(c, cfg, cf) if hasattr(pm, 'on_compile_fail') else 'broken'
            if verdict == 'violation':
                kf = match_known(known, prop, c.id, cfg.key(), 'compile')
                if kf: known_hit.setdefault(kf['id'], [kf, 0]); known_hit[kf['id']][1] += 1
                else:
                    d = write_replay(prop, c, cfg, 'compile-fail', cf['msg'], None)
                    viol.append((c.id, cfg.key(), 'does not compile: ' + cf['msg'][:160], d))
            elif verdict == 'skip': pass
            else: broken.append(f'{c.id}@{cfg.key()}: harness does not compile: {cf["msg"][:200]}')
        if out.get('native_err'): broken.append(f'native build failed @{cfg.key()}: ' + out['native_err'][-300:])
        agg['validated'] += out['validated']; agg['val_mismatch'] += len(out['val_mismatch']); agg['gxx_diff'] += len(out.get('gxx_diff', []))
        memcases = {r['id'] for r in out['results'] if r.get('mem')}
        for vm in out['val_mismatch']:
            c = byid[vm['id']]
            if vm['what'] == 'native crash' and vm['id'] in memcases: continue   # the encoder predicted the memory fault
            # a mismatch on a case whose result is anyway a (known) violation is expected: UNDEF outputs are skipped, so a real mismatch = encoder bug
            broken.append(f'{vm["id"]}@{cfg.key()}: ENCODING/NATIVE MISMATCH {vm["what"]} {vm.get("detail", "")[:200]}')
        for r in out['results']:
            c = byid[r['id']]; agg['programs'] += 1
            if r['status'] == 'error':
                broken.append(f'{c.id}@{cfg.key()}: internal error {r["error"][-400:]}'); continue
            agg['steps'] += r.get('steps', 0); slow.append((round(r.get('wall', 0), 1), c.id, cfg.key()))
            if r['status'] == 'inconclusive':
                inconcl.append({'case': c.id, 'cfg': cfg.key(), 'why': r.get('error', '')}); continue
            agg['obligations'] += r['obligations']; agg['discharged'] += r['discharged']; agg['unknown'] += len(r['unknown'])
            agg['paths'] += r['paths']; agg['solver_s'] += r.get('solver_s', 0); agg['queries'] += r.get('queries', 0)
            agg['structural'] += r.get('structural', 0); agg['depth_max'] = max(agg['depth_max'], r.get('depth_max', 0))
            funcs.update(r.get('funcs', [])); intr.update(r.get('intrinsics', [])); stubs.update(r.get('stubs', [])); libm.update(r.get('libm', []))
            if r['unknown']: inconcl.append({'case': c.id, 'cfg': cfg.key(), 'why': 'solver unknown on ' + ','.join(r['unknown'][:6])})
            if hasattr(pm, 'post_case'):
                for msg in pm.post_case(c, cfg, r) or []:
                    r.setdefault('sat', []).append({'label': msg, 'model': {}, 'replay': {'confirmed': True, 'why': msg}, 'kind': 'post'})
            ok = not r['sat'] and not r['mem'] and not r['unknown']
            if ok: agg['cases_ok'] += 1
            if len(samples) < 4 and r['obligations']:
                samples.append({'case': c.id, 'cfg': cfg.key(), 'desc': c.desc, 'kernel': c.kernel_src[:300], 'reference': (c.ref_src or '')[:300],
                                'obligations': r['obligations'], 'discharged': r['discharged'], 'paths': r['paths'], 'ir_steps': r.get('steps', 0)})
            # value violations
            seen = set()
            for sat in r['sat']:
                if hasattr(pm, 'on_value') and sat.get('kind') != 'post' and pm.on_value(c, cfg, sat) == 'ignore': continue
                rep = sat.get('replay') or {}
                if rep.get('confirmed'):
                    agg['sat_confirmed'] += 1
                    kf = match_known(known, prop, c.id, cfg.key(), sat['label'])
                    if kf:
                        known_hit.setdefault(kf['id'], [kf, 0]); known_hit[kf['id']][1] += 1
                    elif c.id not in seen:
                        seen.add(c.id)
                        d = write_replay(prop, c, cfg, 'value', {'label': sat['label'], 'why': rep.get('why'), 'note': sat.get('note')}, out.get('src'), rep.get('inp'))
                        viol.append((c.id, cfg.key(), f'{sat["label"]}: {rep.get("why", "")[:200]}', d))
                else:
                    agg['sat_unconfirmed'] += 1
                    inconcl.append({'case': c.id, 'cfg': cfg.key(), 'why': f'solver counterexample for {sat["label"]} did not reproduce natively ({rep.get("why", "")[:120]}) -> encoding disagreement, not reported'})
            for mv in r['mem']:
                agg['mem_checked'] += 1
                verdict = pm.on_mem(c, cfg, mv) if hasattr(pm, 'on_mem') else 'violation'
                if verdict == 'ignore': continue
                if not mv.get('confirmed'):
                    inconcl.append({'case': c.id, 'cfg': cfg.key(), 'why': f'memory finding not reproduced natively (reported separately, no alarm): {mv["kind"]}: {mv["what"][:160]}'})
                    mem_unconfirmed.append({'case': c.id, 'cfg': cfg.key(), 'kind': mv['kind'], 'what': mv['what'][:200]})
                    continue
                kf = match_known(known, prop, c.id, cfg.key(), 'mem:' + mv['kind'])
                if kf: known_hit.setdefault(kf['id'], [kf, 0]); known_hit[kf['id']][1] += 1
                elif ('mem', c.id) not in seen:
                    seen.add(('mem', c.id))
                    inp = runner.model_inputs(c, mv.get('model') or {})
                    d = write_replay(prop, c, cfg, 'memory', mv, out.get('src'), batch.hexinp(inp))
                    viol.append((c.id, cfg.key(), f'memory {mv["kind"]}: {mv["what"][:160]} [{mv.get("why", "")[:120]}]', d))
        if not os.environ.get('FSV_KEEP'): shutil.rmtree(os.path.join(build.WORK, f'{prop}_{tier}', cfg.key()), ignore_errors=True)
    # C06-style cross-configuration compile matrix is handled by the property module
    if hasattr(pm, 'finalize'):
        extra = pm.finalize(tier, locals())
        for v in extra or []: viol.append(v)
    wall = time.time() - t0
    for kid, (kf, n) in sorted(known_hit.items()):
        lines.append(f'KNOWN-FINDING: property={prop} {kf["id"]}: {kf["what"]} ({n} hits)')
    for cid, ck, what, d in viol:
        lines.append(f'VIOLATION property={prop} replay={d}   # {cid} @ {ck}: {what}')
    mandatory_bad = []
    if hasattr(pm, 'mandatory'):
        for ic in inconcl:
            if pm.mandatory(ic['case'], ic['cfg']): mandatory_bad.append(ic)
    code = 1 if viol else (2 if (broken or mandatory_bad) else 0)
    level = getattr(pm, 'LEVEL', 'model_checking')
    cov = {
        'states': max(agg['paths'], 1), 'transitions': max(agg['steps'], 1), 'traces_validated_against_impl': agg['validated'],
        'programs': max(agg['programs'], 1), 'disagreements_checked': agg['sat_confirmed'] + agg['sat_unconfirmed'],
        'evaluations': max(agg['programs'], 1), 'distinct_nontrivial': agg['cases_ok'],
        'rule': 'one evaluation = one harness instantiation (template arguments x configuration) executed symbolically; counted as distinct+non-trivial when all its obligations were discharged by the solver (unsat) and no memory finding remained',
        'obligations': agg['obligations'], 'discharged': agg['discharged'], 'solver_unknown': agg['unknown'],
        'decided_structurally': agg['structural'],
        'samples': samples or [{'note': 'no case ran'}], 'configs': cfgkeys, 'per_config': per_cfg,
        'functions_encoded': sorted(funcs)[:80], 'intrinsics_modelled_and_hit': sorted(intr), 'stubs_hit': sorted(stubs), 'libm_uninterpreted': sorted(libm),
        'solver_time_s': round(agg['solver_s'], 2), 'solver_stats': {k: {'queries': v[0], 'seconds': round(v[1], 2)} for k, v in smt.STATS.items()},
        'feasibility_queries': agg['queries'], 'max_rounding_depth': agg['depth_max'],
        'inconclusive': inconcl[:200], 'inconclusive_count': len(inconcl), 'broken': broken[:50],
        'compile_failures': agg['compile_fail'], 'compile_matrix': compile_matrix,
        'counterexamples_replayed_confirmed': agg['sat_confirmed'], 'counterexamples_not_reproduced': agg['sat_unconfirmed'],
        'encoder_native_mismatches': agg['val_mismatch'], 'gxx_build_differs': agg['gxx_diff'],
        'slowest_cases': sorted(slow, reverse=True)[:12],
        'memory_findings_unconfirmed': mem_unconfirmed[:50],
        'known_findings_hit': {k: v[1] for k, v in known_hit.items()},
        'bounds': pm.bounds(tier) if hasattr(pm, 'bounds') else '', 'explanation': getattr(pm, 'EXPLANATION', ''),
        'max_rss_kb': resource.getrusage(resource.RUSAGE_CHILDREN).ru_maxrss,
        'checker_cmd': f'./check {prop} --tier {tier}', 'trusted_base': ['clang++-14 front end and -O2 pipeline (IR producer)', 'fsv IR parser + symbolic interpreter (cross-checked against native execution on every run)', 'z3 4.8.12 / 5.1'],
        'exhaustive': False,
    }
    ev = {'property_id': prop, 'tier': tier, 'seed': seed, 'level': level, 'coverage': cov, 'wall_s': round(wall, 2), 'violations': len(viol),
          'assumptions': getattr(pm, 'ASSUMPTIONS', []) + COMMON_ASSUMPTIONS}
    return code, ev, lines


COMMON_ASSUMPTIONS = [
    'IR producer is clang++-14 -O2 -ffp-contract=off -fno-vectorize -fno-slp-vectorize -fno-unroll-loops (native validation uses the same flags without the three -fno-* loop flags); other compilers are outside the claim',
    'regions never overlap; external buffers have exactly N*sizeof(T) bytes and only alignof(T) alignment; Fastor-owned tensors have sizeof(Tensor) bytes including their alignment padding',
    'solver unknown / encoding error = inconclusive (listed), never counted as discharged',
]


def main(argv=None):
    ap = argparse.ArgumentParser()
    ap.add_argument('prop'); ap.add_argument('--tier', default=os.environ.get('VERIF_TIER', 'quick'))
    ap.add_argument('--cfg'); ap.add_argument('--case'); ap.add_argument('--no-evidence', action='store_true')
    a = ap.parse_args(argv)
    seed = int(os.environ.get('VERIF_SEED', '0'))
    pm = importlib.import_module('props.' + a.prop.lower())
    from . import lemmas
    lm = lemmas.prove_all()
    if not all(v[0] == 'unsat' for v in lm.values()):
        print('BROKEN: encoder normalisation lemma not proved', lm); sys.exit(2)
    try:
        code, ev, lines = run_property(pm, a.tier, seed, a.cfg, a.case)
    except Exception:
        import traceback
        print('BROKEN: internal error in the checker (no verdict):\n' + traceback.format_exc()[-2000:]); sys.exit(2)
    ev['coverage']['encoder_lemmas'] = {k: v[0] for k, v in lm.items()}
    for l in lines: print(l)
    c = ev['coverage']
    print(f'{a.prop} {a.tier}: programs={c["programs"]} obligations={c["obligations"]} discharged={c["discharged"]} unknown={c["solver_unknown"]} '
          f'inconclusive={c["inconclusive_count"]} validated={c["traces_validated_against_impl"]} violations={ev["violations"]} wall={ev["wall_s"]}s exit={code}')
    for b in c['broken'][:10]: print('BROKEN:', b)
    if not a.no_evidence and not a.cfg and not a.case:
        os.makedirs(os.path.join(VERIF, 'evidence'), exist_ok=True)
        json.dump(ev, open(os.path.join(VERIF, 'evidence', a.prop + '.json'), 'w'), indent=1, default=str)
    else:
        json.dump(ev, open('/tmp/fsv_last_evidence.json', 'w'), indent=1, default=str)
    if not os.environ.get('FSV_KEEP'): shutil.rmtree(os.path.join(build.WORK, f'{a.prop}_{a.tier}'), ignore_errors=True)
    sys.exit(code)


if __name__ == '__main__':
    main()
