"""Batch runner: generate TU -> clang IR -> symbolic execution per case (process pool) -> obligations -> solver
   -> native validation of the encoding -> native replay of counterexamples."""
import os, sys, time, json, random, subprocess, traceback, struct, hashlib, multiprocessing as mp, resource
from fractions import Fraction
import z3
from . import build, ir, smt, proc
from .vals import *
from .case import *
from .sym import Interp, PathEnd, Stats, CondVal

PRELUDE = '''#include <Fastor/Fastor.h>
#include <complex>
#include <cstdint>
using namespace Fastor;
extern "C" void fsv_assume(int);
template<class X, typename std::enable_if<std::is_arithmetic<X>::value,bool>::type=0> static inline X fsv_scalar(X x){return x;}
template<class X, typename std::enable_if<!std::is_arithmetic<X>::value,bool>::type=0> static inline typename X::scalar_type fsv_scalar(const X& x){return x.data()[0];}
'''


def tu_source(cases, extra_prelude=''):
    return PRELUDE + extra_prelude + '\n' + '\n'.join(c.source() for c in cases) + '\n'


# --------------------------------------------------------------------------- native driver
DRIVER_MAIN = r'''
#include <cstdio>
#include <cstdlib>
#include <cstring>
#include <string>
#include <vector>
#include <iostream>
#include <sstream>
#include <exception>
#include <sys/mman.h>
struct FsvArg { int kind; int es; long n; int align; };   // kind 0 in-buffer, 1 out/inout buffer, 2 scalar
struct FsvCase { const char* id; void (*k)(void**, unsigned long long*); void (*r)(void**, unsigned long long*); int nargs; FsvArg args[20]; };
extern FsvCase fsv_cases[]; extern int fsv_ncases;
extern "C" void fsv_assume(int) {}
static int hexv(char c){ return c<='9'? c-'0' : (c|32)-'a'+10; }
int main(){
    std::string line;
    while (std::getline(std::cin, line)) {
        std::istringstream is(line); int ci; std::string which; int mis;
        if(!(is >> ci >> which >> mis)) continue;
        FsvCase& c = fsv_cases[ci];
        void* p[20]; unsigned long long sc[20]; std::vector<char*> bases; std::vector<size_t> sizes;
        for (int a=0;a<c.nargs;++a){
            std::string tok; is >> tok;
            if (c.args[a].kind==2){ sc[a]=strtoull(tok.c_str(),nullptr,16); p[a]=nullptr; bases.push_back(nullptr); sizes.push_back(0); continue; }
            size_t sz = (size_t)c.args[a].es*c.args[a].n; size_t al = c.args[a].align; int m = mis<0 ? 0 : mis;
            // buffer flush against an inaccessible guard page (start aligned to exactly the guaranteed alignment where possible)
            size_t pg = 4096, rsz = ((sz + al-1)/al)*al, np = (rsz + m + pg-1)/pg + 1;
            char* base=(char*)mmap(0,(np+1)*pg,PROT_READ|PROT_WRITE,MAP_PRIVATE|MAP_ANONYMOUS,-1,0);
            mprotect(base+np*pg, pg, PROT_NONE);
            char* b = base+np*pg - rsz - m; bases.push_back(base); sizes.push_back((np+1)*pg);
            for(size_t i=0;i<sz;++i) b[i]=(char)(hexv(tok[2*i])*16+hexv(tok[2*i+1]));
            p[a]=b;
        }
        bool exc=false;
        try { if (which=="k") c.k(p,sc); else c.r(p,sc); } catch(std::exception& e){ exc=true; }
        std::string out;
        if (exc) out="EXC";
        for (int a=0;a<c.nargs;++a){
            if (c.args[a].kind!=1) continue;
            size_t sz=(size_t)c.args[a].es*c.args[a].n; unsigned char* b=(unsigned char*)p[a];
            out+=' ';
            static const char* H="0123456789abcdef";
            for(size_t i=0;i<sz;++i){ out+=H[b[i]>>4]; out+=H[b[i]&15]; }
        }
        puts(out.c_str()); fflush(stdout);
        for (size_t i=0;i<bases.size();++i) if (bases[i]) munmap(bases[i], sizes[i]);
    }
    return 0;
}
'''


def driver_source(cases):
    out = [DRIVER_MAIN]
    for c in cases:
        for which in ('k', 'r'):
            if which == 'r' and c.ref_src is None: continue
            call = []
            for i, a in enumerate(c.args):
                if isinstance(a, Scal):
                    if a.kind == 'f':
                        ut = 'unsigned' if a.w == 32 else 'unsigned long long'
                        call.append(f'[&]{{ {ut} u=({ut})sc[{i}]; {a.cty} f; memcpy(&f,&u,sizeof f); return f; }}()')
                    else: call.append(f'({a.cty})sc[{i}]')
                else:
                    call.append(f'({"const " if a.role == "in" else ""}{cxx(a.cty)}*)p[{i}]')
            out.append(f'static void t{which}_{c.id}(void** p, unsigned long long* sc){{ {which}_{c.id}({", ".join(call)}); }}')
    out.append('FsvCase fsv_cases[] = {')
    for c in cases:
        args = ','.join('{%d,%d,%d,%d}' % ((2, 8, 1, 8) if isinstance(a, Scal) else (0 if a.role == 'in' else 1, a.es, a.n, a.align)) for a in c.args)
        r = f't r_{c.id}'.replace(' ', '') if c.ref_src is not None else 'nullptr'
        out.append(f'  {{"{c.id}", tk_{c.id}, {("tr_" + c.id) if c.ref_src is not None else "nullptr"}, {len(c.args)}, {{{args}}}}},')
    out.append('};\nint fsv_ncases = %d;' % len(cases))
    return '\n'.join(out)


class Native:
    """a native build of the TU + driver; run(case_index, which, inputs) -> outputs"""
    def __init__(s, exe, cases): s.exe = exe; s.cases = cases; s.index = {c.id: i for i, c in enumerate(cases)}

    def run_many(s, reqs, timeout=120):
        """reqs: list of (case, which, {argname: bytes|int}) -> list of (exc, {bufname: bytes}) or None on crash"""
        lines = []
        for c, which, inp, mis in reqs:
            toks = [str(s.index[c.id]), which, str(mis)]
            for a in c.args:
                v = inp[a.name]
                toks.append(('%x' % v) if isinstance(a, Scal) else v.hex())
            lines.append(' '.join(toks))
        res = []
        # run one process per request batch; on crash, fall back to one-by-one
        p = proc.run([s.exe], input='\n'.join(lines) + '\n', timeout=timeout)
        outs = p.stdout.split('\n')
        if p.returncode != 0 and len(reqs) > 1:
            for rq in reqs: res += s.run_many([rq], timeout)
            return res
        for i, (c, which, inp, mis) in enumerate(reqs):
            if i >= len(outs) or (p.returncode != 0):
                res.append({'crash': p.returncode, 'stderr': p.stderr[-2000:]}); continue
            toks = outs[i].split(' ')
            exc = toks[0] == 'EXC'
            bufs = {}; k = 1
            for a in c.args:
                if isinstance(a, Scal) or a.role == 'in': continue
                bufs[a.name] = bytes.fromhex(toks[k]) if k < len(toks) else b''; k += 1
            res.append({'exc': exc, 'bufs': bufs})
        return res


# --------------------------------------------------------------------------- concrete inputs
def rand_elem(rng, a, style):
    if a.kind == 'f':
        if style == 'smallint': v = float(rng.randint(-4, 4))
        elif style == 'nz': v = float(rng.choice([-3, -2, -1, 1, 2, 3])) + rng.choice([0.0, 0.5, 0.25])
        else: v = rng.choice([rng.uniform(-8, 8), float(rng.randint(-5, 5)), rng.uniform(-1e3, 1e3), 0.5, -0.0])
        return struct.pack('<f' if a.w == 32 else '<d', v)
    if style in ('smallint', 'nz'):
        v = rng.randint(-4, 4)
        if style == 'nz' and v == 0: v = 1
    else: v = rng.choice([rng.getrandbits(a.w), rng.randint(-9, 9), (1 << (a.w - 1)), (1 << (a.w - 1)) - 1, 0, -1])
    return (v & ((1 << a.w) - 1)).to_bytes(a.es, 'little')


def parse_real(v):
    """SMT-LIB / z3 real literal -> Fraction: 3, -3, 1/2, 0.25, 1.5?, (/ 1.0 2.0), (- 5.0), (- (/ 1 3)); anything else (root objects) -> 0"""
    import re
    toks = re.findall(r'[()]|[^\s()]+', str(v).replace('?', ''))
    pos = [0]
    def rd():
        t = toks[pos[0]]; pos[0] += 1
        if t != '(': return Fraction(t)
        op = toks[pos[0]]; pos[0] += 1; args = []
        while toks[pos[0]] != ')': args.append(rd())
        pos[0] += 1
        if op == '-': return -args[0] if len(args) == 1 else args[0] - sum(args[1:])
        if op == '/': return args[0] / args[1]
        if op == '+': return sum(args)
        if op == '*':
            r = Fraction(1)
            for a in args: r *= a
            return r
        raise ValueError(op)
    try: return rd()
    except Exception: return Fraction(0)


def model_inputs(case, model, fill=0):
    """concrete input assignment from a solver model (missing vars -> fill)"""
    inp = {}
    for a in case.args:
        if isinstance(a, Scal):
            v = model.get(a.name, 0) if a.value is None else a.value
            if isinstance(v, str): v = 0
            inp[a.name] = v & ((1 << 64) - 1) if a.kind == 'i' else v
            if a.kind == 'i' and a.w < 64: inp[a.name] = v & ((1 << a.w) - 1)
            continue
        bs = b''
        for i in range(a.n):
            if i in a.fixed and a.role != 'out': bs += enc_elem(a, a.fixed[i]); continue
            v = model.get(a.var(i), None)
            if a.role == 'out' or v is None:
                if isinstance(a.init, list) and a.role != 'out':
                    iv = a.init[i]
                    bs += struct.pack('<f' if a.w == 32 else '<d', float(iv)) if a.kind == 'f' else (int(iv) & ((1 << a.w) - 1)).to_bytes(a.es, 'little')
                else:
                    fv = fill if not isinstance(fill, random.Random) else fill.randint(1, 9)
                    bs += (b'\xab' * a.es) if a.role == 'out' else (struct.pack('<f' if a.w == 32 else '<d', float(fv)) if a.kind == 'f' else int(fv).to_bytes(a.es, 'little'))
                continue
            if a.kind == 'f':
                if isinstance(v, str):    # real-domain rational
                    f = parse_real(v)
                    bs += struct.pack('<f' if a.w == 32 else '<d', float(f))
                else: bs += int(v).to_bytes(a.es, 'little')
            else: bs += (int(v) & ((1 << a.w) - 1)).to_bytes(a.es, 'little')
        inp[a.name] = bs
    return inp


def rand_inputs(case, rng, style):
    inp = {}
    for a in case.args:
        if isinstance(a, Scal):
            inp[a.name] = None; continue
        if a.role == 'out': inp[a.name] = b'\xab' * (a.n * a.es)
        elif isinstance(a.init, list):
            inp[a.name] = b''.join(struct.pack('<f' if a.w == 32 else '<d', float(v)) if a.kind == 'f' else (int(v) & ((1 << a.w) - 1)).to_bytes(a.es, 'little') for v in a.init)
        else: inp[a.name] = b''.join((enc_elem(a, a.fixed[i]) if i in a.fixed else rand_elem(rng, a, style)) for i in range(a.n))
    return inp


def enc_elem(a, v):
    if a.kind == 'f': return struct.pack('<f' if a.w == 32 else '<d', float(v))
    return (int(v) & ((1 << a.w) - 1)).to_bytes(a.es, 'little')


def subst_map(case, inp, dom_name, skip_scalars=False):
    """z3 substitution list for a concrete input assignment"""
    subs = []
    for a in case.args:
        if isinstance(a, Scal):
            if a.value is None and a.kind == 'i' and not skip_scalars: subs.append((z3.BitVec(a.name, a.w), z3.BitVecVal(inp[a.name], a.w)))
            continue
        if a.role == 'out' or isinstance(a.init, list): continue
        bs = inp[a.name]
        for i in range(a.n):
            if i in a.fixed: continue
            raw = int.from_bytes(bs[i * a.es:(i + 1) * a.es], 'little')
            if a.kind == 'f' and dom_name == 'real':
                subs.append((z3.Real(a.var(i)), z3.RealVal(Fraction(bits2f(raw, a.w)))))
            else:
                subs.append((z3.BitVec(a.var(i), a.w), z3.BitVecVal(raw, a.w)))
    return subs


def eval_term(t, subs):
    r = z3.simplify(z3.substitute(t, *subs)) if subs else z3.simplify(t)
    return r


# --------------------------------------------------------------------------- worker
_G = {}


def _init_worker(irpath, cases, opts):
    resource.setrlimit(resource.RLIMIT_AS, (12 << 30, 12 << 30))
    _G['mod'] = ir.parse_module(open(irpath).read()); _G['cases'] = {c.id: c for c in cases}; _G['opts'] = opts


def run_case_worker(cid):
    case = _G['cases'][cid]; mod = _G['mod']; opts = _G['opts']
    try:
        return run_case(mod, case, opts)
    except Exception as e:
        return {'id': cid, 'status': 'error', 'error': traceback.format_exc()[-1500:]}


def run_case(mod, case, opts):
    t0 = time.time()
    res = {'id': case.id, 'desc': case.desc, 'status': 'ok', 'obligations': 0, 'discharged': 0, 'unknown': [], 'sat': [],
           'mem': [], 'paths': 0, 'notes': [], 'structural': 0, 'depth_max': 0, 'val_pred': [], 'heap': []}
    stats = Stats()
    V = case.scalar_vars()
    base_pc = [c for c in case.pre(V)]
    try:
        kpaths = case.explore(mod, 'k_' + case.id, case.mkdom, base_pc, stats)
    except EncodingError as e:
        res['status'] = 'inconclusive'; res['error'] = 'encoding: ' + str(e)[:300]
        res['steps'] = stats.steps; res['wall'] = time.time() - t0
        return res
    res['paths'] = len(kpaths)
    solver_t = 0.0
    all_obls = []
    try:
        for kp in kpaths:
            for v in kp.viol:
                res['mem'].append({'kind': v.kind, 'what': v.what, 'model': smt.model_dict(v.model) if v.model is not None else None})
            if kp.heap: res['heap'] += kp.heap
            res.setdefault('statuses', []).append(kp.status)
            obls = case.path_obligations(mod, kp, stats) if hasattr(case, 'path_obligations') else (case.obligations(mod, kp, stats) if kp.status == 'ok' else [])
            for o in obls: o.kp = kp
            all_obls += obls
    except EncodingError as e:
        res['status'] = 'inconclusive'; res['error'] = 'encoding(spec): ' + str(e)[:300]
        res['steps'] = stats.steps; res['wall'] = time.time() - t0
        return res
    # vacuity: path conditions must be satisfiable (explore only keeps feasible paths)
    false_cache = {}
    for o in all_obls:
        res['obligations'] += 1
        if o.goal is None:
            if o.trivially: res['discharged'] += 1; res['structural'] += 1
            else: res['sat'].append({'label': o.label, 'note': o.note, 'model': {}})
            continue
        if o.depth is not None: res['depth_max'] = max(res['depth_max'], o.depth[0])
        hyp = list(o.hyp) + list(getattr(o.kp.dom, 'hyp', []))
        if z3.is_false(o.goal):
            # structural violation (e.g. an element the kernel never writes): only the feasibility of the path matters, and that
            # is decided once per path, not once per element
            key = id(o.kp)
            if key not in false_cache:
                r0, m0, dt0 = smt.check_api(list(o.pc) + hyp, opts.get('timeout', case.timeout)); solver_t += dt0
                false_cache[key] = (r0, m0)
            r0, m0 = false_cache[key]
            if r0 == 'unsat': res['discharged'] += 1
            else: res['sat'].append({'label': o.label, 'note': o.note, 'model': m0 or {}, 'kind': o.kind})
            continue
        r, m, dt, who = smt.prove(o.pc, hyp, o.goal, timeout_s=opts.get('timeout', case.timeout), logic=case.smt_logic(), portfolio=case.portfolio, order_only=getattr(case, 'order_only', False), api_default=getattr(case, 'api_default', False))
        solver_t += dt
        if r == 'unsat': res['discharged'] += 1
        elif r == 'sat': res['sat'].append({'label': o.label, 'note': o.note, 'model': m, 'kind': o.kind})
        else: res['unknown'].append(o.label)
    # witness: a corrupted spec must be refutable (guards against vacuous harnesses)
    wit = None
    for o in all_obls:
        if o.goal is not None and not z3.is_true(z3.simplify(o.goal)) or (o.goal is not None and len(o.pc) > 0):
            r, m, dt = smt.check_api(list(o.pc) + list(getattr(o.kp.dom, 'hyp', [])), 5)
            wit = r; break
    res['witness_pc_sat'] = wit
    # vacuity: the definedness hypotheses (non-zero divisors, purification definitions) must be satisfiable together with the
    # path condition on at least one path; otherwise every obligation above was discharged from a contradiction
    if kpaths and not res['sat']:
        vac = None
        for kp in kpaths:
            hy = list(getattr(kp.dom, 'hyp', [])) + (list(case.hyps(kp)) if hasattr(case, 'hyps') else [])
            if not hy: vac = False; break
            r, m, dt = smt.check_api(list(kp.pc) + hy, 5); solver_t += dt
            if r != 'unsat': vac = False; break
            vac = True
        res['vacuous'] = bool(vac)
        if vac:
            r, m, dt = smt.check_api(list(base_pc), 5)
            res['sat'].append({'label': 'defined', 'note': 'no input admitted by the precondition reaches a defined result on any path (a divisor is zero for all of them)',
                               'model': m if r == 'sat' and m else {}, 'kind': 'vacuous'})
    # concrete predictions for native validation
    if opts.get('validate', True) and kpaths:
        try:
            res['val_pred'] = predictions(case, kpaths, opts.get('seed', 0), opts.get('nval', 2))
        except Exception as e:
            res['notes'].append('validation prediction failed: ' + str(e)[:200])
    res['steps'] = stats.steps; res['queries'] = stats.queries; res['funcs'] = sorted(stats.funcs)[:50]
    res['intrinsics'] = sorted(stats.intrinsics); res['stubs'] = sorted(stats.stubs); res['solver_s'] = solver_t + stats.solver_s
    res['nz'] = len(getattr(kpaths[0].dom, 'nz', [])) if kpaths else 0
    res['libm'] = sorted(set().union(*[kp.dom.libm_calls for kp in kpaths])) if kpaths else []
    res['wall'] = time.time() - t0
    if res['unknown'] and res['status'] == 'ok': res['status'] = 'partial'
    return res


def predictions(case, kpaths, seed, n):
    """evaluate the symbolic outputs on concrete inputs (for comparison with the native build)"""
    import zlib
    rng = random.Random(zlib.crc32(f'{seed}:{case.id}'.encode()))
    preds = []
    dom_name = kpaths[0].dom.name
    style = getattr(case, 'val_style', 'smallint' if dom_name == 'real' else 'mixed')
    V = case.scalar_vars(); pre = case.pre(V)
    scal = [a for a in case.args if isinstance(a, Scal)]
    # buffer elements constrained by the precondition (index tensors, masks, divisors): taken from a solver model
    constrained = {}
    names = set()
    def walk(e, seen=set()):
        if e.get_id() in seen: return
        seen.add(e.get_id())
        if z3.is_const(e) and e.decl().kind() == z3.Z3_OP_UNINTERPRETED: names.add(e.decl().name())
        for ch in e.children(): walk(ch, seen)
    for c_ in pre:
        if z3.is_expr(c_): walk(c_)
    bufvars = {}
    for a in case.args:
        if isinstance(a, Buf) and a.role != 'out':
            for i in range(a.n):
                if a.var(i) in names: bufvars[a.var(i)] = (a, i)
    for k in range(n):
        inp = None
        for attempt in range(12):
            cand = rand_inputs(case, rng, style)
            if bufvars and (attempt > 0 or len(bufvars) > 3):
                sm = z3.Solver(); sm.set('timeout', 5000); sm.add([c_ for c_ in pre if z3.is_expr(c_)]); sm.set('random_seed', rng.randint(1, 10 ** 6))
                # random hints that are dropped when inconsistent
                for nm, (a, i) in bufvars.items():
                    if a.kind == 'i' and rng.random() < 0.7:
                        sm.push(); sm.add(z3.BitVec(nm, a.w) == int.from_bytes(rand_elem(rng, a, 'smallint' if rng.random() < 0.7 else style), 'little'))
                        if sm.check() != z3.sat: sm.pop()
                if sm.check() == z3.sat:
                    mm = sm.model()
                    for nm, (a, i) in bufvars.items():
                        if a.kind == 'f' and dom_name == 'real': continue
                        v = mm.eval(z3.BitVec(nm, a.w), model_completion=True).as_long()
                        bs = bytearray(cand[a.name]); bs[i * a.es:(i + 1) * a.es] = v.to_bytes(a.es, 'little'); cand[a.name] = bytes(bs)
            for a in scal: cand[a.name] = (a.value & ((1 << a.w) - 1)) if a.value is not None else None
            bsubs = subst_map(case, {k_: v for k_, v in cand.items() if v is not None}, dom_name, skip_scalars=True)
            resid = [eval_term(c, bsubs) for c in pre]
            if any(z3.is_false(c) for c in resid): continue
            resid = [c for c in resid if not z3.is_true(c)]
            sv = z3.Solver(); sv.set('timeout', 5000); sv.add(resid)
            for a in scal:
                if a.value is None and a.kind == 'i' and attempt < 8:
                    # bias towards diverse values
                    sv.push(); sv.add(z3.BitVec(a.name, a.w) % 7 == rng.randint(0, 6))
                    if sv.check() != z3.sat: sv.pop()
            if sv.check() != z3.sat: continue
            m = sv.model()
            for a in scal:
                if a.value is None:
                    cand[a.name] = m.eval(z3.BitVec(a.name, a.w), model_completion=True).as_long() if a.kind == 'i' else 0
            # element variables left unconstrained by the random draw but constrained by resid keep their random value only if consistent
            inp = cand; break
        if inp is None: continue
        subs = subst_map(case, inp, dom_name)
        # which path?
        chosen = None
        for kp in kpaths:
            ok = True
            for c in kp.pc:
                e = eval_term(c, subs)
                if z3.is_false(e): ok = False; break
                if not z3.is_true(e): ok = None; break
            if ok: chosen = kp; break
        if chosen is None: continue
        out = {}
        rd = Reader(chosen.dom)
        hm = None
        if dom_name == 'real' and not getattr(chosen.dom, 'hyp', None) and getattr(chosen.dom, 'nz', None):
            # plain / fraction-free division: an input that makes a divisor zero is outside the claim (native gives inf/nan)
            zero = False
            for t in chosen.dom.nz:
                e = eval_term(t[1] if isinstance(t, tuple) else t, subs)
                if z3.is_rational_value(e) and (e.as_fraction() == 0 if not isinstance(t, tuple) else e.as_fraction() < 0): zero = True; break
            if zero: continue
        if getattr(chosen.dom, 'hyp', None) and dom_name == 'real':
            # purified quotients / roots / named intermediates: after substituting the inputs their defining equations are
            # solved (in order) by z3, which gives the values of the purification variables for this input
            hs = z3.Solver(); hs.set('timeout', 20000)
            hs.add([eval_term(h, subs) for h in chosen.dom.hyp])
            for t in getattr(chosen.dom, 'nz', []):       # divisors must be non-zero for this input, otherwise the quotient is not determined
                hs.add(eval_term(t[1], subs) >= 0 if isinstance(t, tuple) else eval_term(t, subs) != 0)
            if hs.check() == z3.sat: hm = hs.model()
            else: continue
        for a in case.args:
            if isinstance(a, Scal) or a.role == 'in': continue
            vals = []
            for i in range(a.n):
                v = rd.elem(chosen.bufs[a.name], a, i)
                vals.append(conc_value(v, a, subs, chosen.dom, hm))
            out[a.name] = vals
        preds.append({'inp': {k_: (v.hex() if isinstance(v, bytes) else v) for k_, v in inp.items()}, 'out': out, 'status': chosen.status})
    return preds


def conc_value(v, a, subs, dom, hm=None):
    """concrete value of an output element: ('b', int bits) | ('r', 'p/q') | None"""
    if isinstance(v, Undef): return ['u']
    if isinstance(v, CondVal): return None
    if a.kind == 'f':
        f = Interp.as_float(Reader(dom).it, v, a.w)
        if dom.name == 'real':
            if f.den is not None:
                n_ = eval_term(f.r, subs); d_ = eval_term(f.den, subs)
                if z3.is_rational_value(n_) and z3.is_rational_value(d_) and d_.as_fraction() != 0: return ['r', str(n_.as_fraction() / d_.as_fraction())]
                return None
            e = eval_term(f.r, subs)
            if z3.is_rational_value(e): return ['r', str(e.as_fraction())]
            if hm is not None:
                e2 = hm.eval(e, model_completion=True)
                if z3.is_rational_value(e2): return ['r', str(e2.as_fraction())]
                if z3.is_algebraic_value(e2): return ['r', str(e2.approx(30).as_fraction())]
            return None
        b = f.bits()
        if isinstance(b, int): return ['b', b]
        e = eval_term(b, subs)
        if z3.is_bv_value(e): return ['b', e.as_long()]
        from .fdom import uf_concrete
        u = uf_concrete(e)
        return ['b', u] if u is not None else None
    b = as_bits(v, a.w)
    if isinstance(b, int): return ['b', b]
    e = eval_term(bv(b, a.w), subs)
    if z3.is_bv_value(e): return ['b', e.as_long()]
    from .fdom import uf_concrete
    u = uf_concrete(e)
    return ['b', u] if u is not None else None
