"""LLVM-14 textual IR parser (typed pointers) -- just enough for clang++-14 output.

Functions are split into raw lines first; instructions are parsed lazily the
first time a function is executed, so that a TU with thousands of linkonce
functions costs only what the harness reaches.
"""
import re, struct
from fractions import Fraction


# --------------------------------------------------------------------- types
class Ty:
    pass


class IntTy(Ty):
    __slots__ = ('w',)
    def __init__(s, w): s.w = w
    def __repr__(s): return f'i{s.w}'


class FpTy(Ty):
    __slots__ = ('k', 'w')
    def __init__(s, k): s.k = k; s.w = {'float': 32, 'double': 64, 'half': 16, 'x86_fp80': 80}[k]
    def __repr__(s): return s.k


class PtrTy(Ty):
    __slots__ = ('to',)
    def __init__(s, to): s.to = to
    def __repr__(s): return f'{s.to}*'


class VecTy(Ty):
    __slots__ = ('n', 'el')
    def __init__(s, n, el): s.n = n; s.el = el
    def __repr__(s): return f'<{s.n} x {s.el}>'


class ArrTy(Ty):
    __slots__ = ('n', 'el')
    def __init__(s, n, el): s.n = n; s.el = el
    def __repr__(s): return f'[{s.n} x {s.el}]'


class StructTy(Ty):
    def __init__(s, els, name=None, packed=False): s.els = els; s.name = name; s.packed = packed
    def __repr__(s): return s.name or ('<{' if s.packed else '{') + ','.join(map(repr, s.els or [])) + ('}>' if s.packed else '}')


class VoidTy(Ty):
    def __repr__(s): return 'void'


class OpaqueTy(Ty):
    def __init__(s, txt): s.txt = txt
    def __repr__(s): return s.txt


class FnTy(Ty):
    def __init__(s, ret): s.ret = ret
    def __repr__(s): return f'{s.ret}(...)'


I1, I8, I32, I64 = IntTy(1), IntTy(8), IntTy(32), IntTy(64)

TOK = re.compile(r'''\s*(?:(c?"(?:[^"\\]|\\.)*")|(%"(?:[^"\\]|\\.)*"|@"(?:[^"\\]|\\.)*"|[%@!#$][-\w.$]+)|(0x[KMLHR]?[0-9A-Fa-f]+|-?\d+\.\d+(?:[eE][-+]?\d+)?|-?\d+)|([A-Za-z_][\w.]*)|(\.\.\.|[<>\[\]{}(),=*:!|]))''')


def tokenize(s):
    out = []; i = 0; n = len(s)
    while i < n:
        m = TOK.match(s, i)
        if not m:
            rest = s[i:].lstrip()
            if rest == '' or rest.startswith(';'): break
            raise SyntaxError('tok ' + s[i:i + 60])
        i = m.end(); out.append(m.group(m.lastindex))
    return out


class ParseError(Exception):
    pass


PARAM_ATTRS = {'noundef', 'nonnull', 'nocapture', 'readonly', 'writeonly', 'noalias', 'immarg', 'signext', 'zeroext',
               'returned', 'inreg', 'readnone', 'nofree', 'nest', 'swiftself', 'swifterror', 'noundef', 'nonnull',
               'inalloca'}
FMF = {'fast', 'nnan', 'ninf', 'nsz', 'arcp', 'contract', 'afn', 'reassoc'}
CASTS = ('bitcast', 'zext', 'sext', 'trunc', 'fpext', 'fptrunc', 'sitofp', 'uitofp', 'fptosi', 'fptoui', 'ptrtoint',
         'inttoptr', 'addrspacecast')
BINOPS = ('add', 'sub', 'mul', 'shl', 'lshr', 'ashr', 'and', 'or', 'xor', 'sdiv', 'udiv', 'srem', 'urem', 'fadd',
          'fsub', 'fmul', 'fdiv', 'frem')


class P:
    def __init__(s, toks, mod): s.t = toks; s.i = 0; s.mod = mod
    def peek(s): return s.t[s.i] if s.i < len(s.t) else None
    def next(s):
        s.i += 1; return s.t[s.i - 1]
    def eat(s, x):
        if s.i < len(s.t) and s.t[s.i] == x: s.i += 1; return True
        return False
    def expect(s, x):
        if s.next() != x: raise ParseError(f'expected {x} got {s.t[s.i - 1]} in {" ".join(s.t)}')

    def ty(s):
        t = s.next()
        if t == 'void': b = VoidTy()
        elif t[0] == 'i' and t[1:].isdigit(): b = IntTy(int(t[1:]))
        elif t in ('float', 'double', 'half', 'x86_fp80'): b = FpTy(t)
        elif t in ('metadata', 'label', 'token', 'x86_mmx', 'opaque'): b = OpaqueTy(t)
        elif t == '<' and s.peek() == '{':
            s.next(); els = []
            if not s.eat('}'):
                while True:
                    els.append(s.ty())
                    if s.eat('}'): break
                    s.expect(',')
            s.expect('>'); b = StructTy(els, packed=True)
        elif t == '<':
            n = int(s.next()); s.expect('x'); el = s.ty(); s.expect('>'); b = VecTy(n, el)
        elif t == '[':
            n = int(s.next()); s.expect('x'); el = s.ty(); s.expect(']'); b = ArrTy(n, el)
        elif t == '{':
            els = []
            if not s.eat('}'):
                while True:
                    els.append(s.ty())
                    if s.eat('}'): break
                    s.expect(',')
            b = StructTy(els)
        elif t[0] == '%':
            b = s.mod.named.get(t)
            if b is None: b = s.mod.named[t] = StructTy(None, t)
        else: raise ParseError('type ' + t + ' in ' + ' '.join(s.t))
        while True:
            if s.eat('*'): b = PtrTy(b)
            elif s.peek() == '(':   # function type
                depth = 0
                while True:
                    x = s.next()
                    if x == '(': depth += 1
                    elif x == ')':
                        depth -= 1
                        if depth == 0: break
                b = FnTy(b)
            elif s.peek() == 'addrspace':
                s.next(); s.expect('('); s.next(); s.expect(')')
            else: break
        return b

    def skip_attrs(s):
        while True:
            p = s.peek()
            if p in PARAM_ATTRS: s.i += 1
            elif p in ('align', 'dereferenceable', 'dereferenceable_or_null'):
                s.i += 1
                if s.eat('('): s.next(); s.expect(')')
                else: s.next()
            elif p in ('sret', 'byval', 'byref', 'preallocated', 'elementtype'):
                s.i += 1; s.expect('('); s.ty(); s.expect(')')
            else: break

    def attrs(s):
        """like skip_attrs but returns dict of interesting attributes"""
        d = {}
        while True:
            p = s.peek()
            if p in PARAM_ATTRS: s.i += 1; d[p] = True
            elif p in ('align', 'dereferenceable', 'dereferenceable_or_null'):
                s.i += 1
                if s.eat('('): d[p] = int(s.next()); s.expect(')')
                else: d[p] = int(s.next())
            elif p in ('sret', 'byval', 'byref', 'preallocated', 'elementtype'):
                s.i += 1; s.expect('('); d[p] = s.ty(); s.expect(')')
            else: break
        return d

    def value(s, ty):
        t = s.next()
        c = t[0]
        if c == '%': return ('local', t)
        if c == '@': return ('global', t)
        if t in ('undef', 'poison'): return ('undef', ty)
        if t == 'zeroinitializer': return ('zero', ty)
        if t == 'null': return ('null',)
        if t == 'true': return ('int', 1)
        if t == 'false': return ('int', 0)
        if t == 'none': return ('undef', ty)
        if t == '<':
            if s.peek() == '{':
                s.next(); v = s._agg('}'); s.expect('>'); return v
            els = []
            while True:
                et = s.ty(); els.append(s.value(et))
                if s.eat('>'): break
                s.expect(',')
            return ('vec', els)
        if t == '[': return s._agg(']')
        if t == '{': return s._agg('}')
        if t in ('getelementptr', 'bitcast', 'inttoptr', 'ptrtoint', 'addrspacecast', 'trunc', 'zext', 'sext'):
            if t == 'getelementptr':
                s.eat('inbounds'); s.expect('('); bt = s.ty(); s.expect(',')
                pt = s.ty(); pv = s.value(pt); idx = []
                while s.eat(','):
                    s.eat('inrange'); it = s.ty(); idx.append((it, s.value(it)))
                s.expect(')'); return ('cgep', bt, pv, idx)
            s.expect('('); ft = s.ty(); v = s.value(ft); s.expect('to'); tt = s.ty(); s.expect(')')
            return ('ccast', t, ft, v, tt)
        if t in ('add', 'sub', 'mul', 'and', 'or', 'xor', 'shl', 'lshr', 'ashr'):
            while s.peek() in ('nsw', 'nuw', 'exact'): s.i += 1
            s.expect('('); at = s.ty(); a = s.value(at); s.expect(','); bt = s.ty(); b = s.value(bt); s.expect(')')
            return ('cbin', t, at, a, b)
        if c.isdigit() or c == '-':
            if t.startswith('0x'):
                h = t[2:]
                if h[0] in 'KMLHR': raise ParseError('exotic fp constant ' + t)
                bits = int(h, 16)
                return ('fpbits', bits)     # always double-format bit pattern
            if isinstance(ty, FpTy):
                return ('fpbits', struct.unpack('<Q', struct.pack('<d', float(t)))[0])
            if '.' in t or 'e' in t or 'E' in t:
                return ('fpbits', struct.unpack('<Q', struct.pack('<d', float(t)))[0])
            return ('int', int(t))
        if t.startswith('c"'): return ('str', parse_cstr(t[2:-1]))
        if t == 'blockaddress' or t == 'dso_local_equivalent': raise ParseError('unsupported const ' + t)
        raise ParseError('value ' + t + ' in ' + ' '.join(s.t)[:200])

    def _agg(s, close):
        els = []
        if not s.eat(close):
            while True:
                et = s.ty(); els.append((et, s.value(et)))
                if s.eat(close): break
                s.expect(',')
        return ('agg', els)

    def tv(s):
        ty = s.ty(); s.skip_attrs(); return ty, s.value(ty)


def parse_cstr(t):
    out = bytearray(); i = 0
    while i < len(t):
        if t[i] == '\\':
            if t[i + 1] == '\\': out.append(92); i += 2
            else: out.append(int(t[i + 1:i + 3], 16)); i += 3
        else: out.append(ord(t[i])); i += 1
    return bytes(out)


class Instr:
    __slots__ = ('op', 'dst', 'line', 'ty', 'a', 'b', 'c', 'pred', 'align', 'count', 'pty', 'ptr', 'val', 'bty', 'idx',
                 'fty', 'ety', 'ity', 'mty', 'mask', 'cty', 'inc', 'cond', 't', 'f', 'fn', 'args', 'cases', 'default',
                 'normal', 'unwind', 'flags', 'idxs', 'aty', 'fnty', 'inbounds', 'asm')
    def __init__(s, **k):
        for a, b in k.items(): setattr(s, a, b)


class Func:
    def __init__(s, name, params, ret, lines, mod, pattrs=None):
        s.name = name; s.params = params; s.ret = ret; s.lines = lines; s.mod = mod; s.pattrs = pattrs or []
        s._parsed = False; s.blocks = {}; s.order = []; s.entry = None

    def parse(s):
        if s._parsed: return s
        n = len([1 for _, nm in s.params if re.fullmatch(r'%\d+', nm)])
        blk = '%' + str(n); s.blocks[blk] = []; s.order.append(blk); s.entry = blk
        lines = s.lines; k = 0; nl = len(lines)
        while k < nl:
            ln = lines[k]; k += 1
            m = LABEL.match(ln)
            if m:
                blk = '%' + (m.group(1) or m.group(2)); s.blocks[blk] = []; s.order.append(blk); continue
            st = ln.strip()
            if not st or st[0] == ';': continue
            if ' invoke ' in st or st.startswith('invoke '):
                st = st + ' ' + lines[k].strip(); k += 1
            elif st.startswith('switch ') and not st.endswith(']'):
                while True:
                    nx = lines[k].strip(); k += 1; st = st + ' ' + nx
                    if nx == ']': break
            elif ' landingpad ' in st:
                while k < nl and lines[k].strip().split(' ')[0] in ('cleanup', 'catch', 'filter'): k += 1
            s.blocks[blk].append(parse_instr(st, s.mod))
        s._parsed = True
        return s


LABEL = re.compile(r'(?:([-\w.$]+)|"((?:[^"\\]|\\.)*)"):')


class Global:
    def __init__(s, name, ty, init, align, const): s.name = name; s.ty = ty; s.init = init; s.align = align; s.const = const


class Module:
    def __init__(s): s.named = {}; s.funcs = {}; s.globals = {}; s.decls = {}; s.target_features = ''


MD1 = re.compile(r', ![\w.]+ !(?:\d+|\{[^}]*\}|DIExpression\([^)]*\))')
ATTRGRP = re.compile(r' #\d+(?=$| )')


def parse_instr(line, mod):
    line = MD1.sub('', line)
    line = ATTRGRP.sub('', line)
    toks = tokenize(line); p = P(toks, mod)
    dst = None
    if len(toks) > 1 and toks[1] == '=': dst = toks[0]; p.i = 2
    op = p.next()
    I = Instr(op=op, dst=dst, line=line)
    if op in BINOPS:
        fl = set()
        while p.peek() in ('nsw', 'nuw', 'exact') or p.peek() in FMF: fl.add(p.next())
        I.flags = fl
        I.ty = p.ty(); I.a = p.value(I.ty); p.expect(','); I.b = p.value(I.ty)
    elif op == 'fneg':
        while p.peek() in FMF: p.i += 1
        I.ty = p.ty(); I.a = p.value(I.ty)
    elif op in ('icmp', 'fcmp'):
        while p.peek() in FMF: p.i += 1
        I.pred = p.next(); I.ty = p.ty(); I.a = p.value(I.ty); p.expect(','); I.b = p.value(I.ty)
    elif op == 'alloca':
        p.eat('inalloca'); I.ty = p.ty(); I.align = 1; I.count = None
        while p.eat(','):
            if p.eat('align'): I.align = int(p.next())
            elif p.peek() == 'addrspace': p.next(); p.expect('('); p.next(); p.expect(')')
            else: ct = p.ty(); I.count = (ct, p.value(ct))
    elif op == 'load':
        p.eat('atomic'); p.eat('volatile'); I.ty = p.ty(); p.expect(','); I.pty, I.ptr = p.tv(); I.align = 1
        while p.eat(','):
            if p.eat('align'): I.align = int(p.next())
            else: break
    elif op == 'store':
        p.eat('atomic'); p.eat('volatile'); I.ty, I.val = p.tv(); p.expect(','); I.pty, I.ptr = p.tv(); I.align = 1
        while p.eat(','):
            if p.eat('align'): I.align = int(p.next())
            else: break
    elif op == 'getelementptr':
        I.inbounds = p.eat('inbounds'); I.bty = p.ty(); p.expect(','); I.pty, I.ptr = p.tv(); I.idx = []
        while p.eat(','):
            it = p.ty(); I.idx.append((it, p.value(it)))
    elif op in CASTS:
        I.fty, I.a = p.tv(); p.expect('to'); I.ty = p.ty()
    elif op == 'insertelement':
        I.ty, I.a = p.tv(); p.expect(','); I.ety, I.b = p.tv(); p.expect(','); I.ity, I.c = p.tv()
    elif op == 'extractelement':
        I.ty, I.a = p.tv(); p.expect(','); I.ity, I.b = p.tv()
    elif op == 'shufflevector':
        I.ty, I.a = p.tv(); p.expect(','); _, I.b = p.tv(); p.expect(','); I.mty, I.mask = p.tv()
    elif op == 'extractvalue':
        I.ty, I.a = p.tv(); I.idxs = []
        while p.eat(','): I.idxs.append(int(p.next()))
    elif op == 'insertvalue':
        I.ty, I.a = p.tv(); p.expect(','); I.ety, I.b = p.tv(); I.idxs = []
        while p.eat(','): I.idxs.append(int(p.next()))
    elif op == 'select':
        while p.peek() in FMF: p.i += 1
        I.cty, I.c = p.tv(); p.expect(','); I.ty, I.a = p.tv(); p.expect(','); _, I.b = p.tv()
    elif op == 'freeze':
        I.ty, I.a = p.tv()
    elif op == 'phi':
        while p.peek() in FMF: p.i += 1
        I.ty = p.ty(); I.inc = {}
        while True:
            p.expect('['); v = p.value(I.ty); p.expect(','); lab = p.next(); p.expect(']'); I.inc[lab] = v
            if not p.eat(','): break
    elif op == 'br':
        if p.peek() == 'label': p.next(); I.cond = None; I.t = p.next()
        else:
            _, I.cond = p.tv(); p.expect(','); p.expect('label'); I.t = p.next(); p.expect(','); p.expect('label'); I.f = p.next()
    elif op == 'switch':
        I.ty, I.a = p.tv(); p.expect(','); p.expect('label'); I.default = p.next(); p.expect('['); I.cases = []
        while not p.eat(']'):
            ct = p.ty(); cv = p.value(ct); p.expect(','); p.expect('label'); I.cases.append((cv[1], p.next()))
    elif op == 'ret':
        I.ty = p.ty(); I.a = None if isinstance(I.ty, VoidTy) else p.value(I.ty)
    elif op in ('call', 'tail', 'musttail', 'notail', 'invoke'):
        if op not in ('call', 'invoke'): p.expect('call'); op = 'call'
        I.op = op
        while p.peek() in FMF: p.i += 1
        while p.peek() in ('fastcc', 'ccc', 'coldcc'): p.i += 1
        p.skip_attrs(); I.ty = p.ty(); p.skip_attrs()
        if isinstance(I.ty, FnTy): I.ty = I.ty.ret
        if p.peek() == 'asm':
            p.next()
            while p.peek() in ('sideeffect', 'alignstack', 'inteldialect', 'unwind'): p.i += 1
            txt = p.next(); p.expect(','); cons = p.next()
            I.asm = (txt, cons); I.fn = 'asm'
        else:
            I.asm = None
            I.fn = p.next()
        p.expect('('); I.args = []
        if not p.eat(')'):
            while True:
                at = p.ty(); p.skip_attrs()
                if isinstance(at, OpaqueTy) and at.txt == 'metadata':
                    # metadata operand: skip balanced
                    if p.peek() == '!':
                        p.next()
                    p.next(); I.args.append((at, None))
                else: I.args.append((at, p.value(at)))
                if p.eat(')'): break
                p.expect(',')
        if op == 'invoke':
            while p.peek() != 'to':
                if p.peek() is None: raise ParseError('invoke without to: ' + line)
                p.i += 1
            p.expect('to'); p.expect('label'); I.normal = p.next(); p.expect('unwind'); p.expect('label'); I.unwind = p.next()
    elif op == 'landingpad':
        I.ty = p.ty()
    elif op == 'resume':
        I.ty, I.a = p.tv()
    elif op == 'unreachable':
        pass
    elif op == 'fence':
        pass
    else:
        raise ParseError('instr ' + op + ': ' + line)
    return I


DEFINE = re.compile(r'define\b.*?(@"(?:[^"\\]|\\.)*"|@[-\w.$]+)\(')
DECLARE = re.compile(r'declare\b.*?(@"(?:[^"\\]|\\.)*"|@[-\w.$]+)\(')
GLOBAL = re.compile(r'(@"(?:[^"\\]|\\.)*"|@[-\w.$]+) = (.*)$')
LINKAGE = {'private', 'internal', 'available_externally', 'linkonce', 'weak', 'common', 'appending', 'extern_weak',
           'linkonce_odr', 'weak_odr', 'external', 'dso_local', 'dso_preemptable', 'default', 'hidden', 'protected',
           'unnamed_addr', 'local_unnamed_addr', 'thread_local', 'externally_initialized', 'dllimport', 'dllexport'}


def split_params(ps):
    d = 0; start = 0; parts = []; q = False
    for k, ch in enumerate(ps):
        if ch == '"': q = not q
        if q: continue
        if ch in '(<[{': d += 1
        elif ch in ')>]}': d -= 1
        elif ch == ',' and d == 0: parts.append(ps[start:k]); start = k + 1
    if ps[start:].strip(): parts.append(ps[start:])
    return parts


def parse_module(text):
    mod = Module(); lines = text.split('\n')
    for ln in lines:          # named types first
        if ln and ln[0] == '%':
            m = re.match(r'(%"(?:[^"\\]|\\.)*"|%[-\w.$]+) = type (.*)$', ln)
            if m:
                p = P(tokenize(m.group(2)), mod)
                st = mod.named.get(m.group(1))
                if st is None: st = mod.named[m.group(1)] = StructTy(None, m.group(1))
                if p.peek() == 'opaque': continue
                t = p.ty(); st.els = t.els; st.packed = t.packed
    i = 0; n = len(lines)
    while i < n:
        ln = lines[i]; i += 1
        if ln.startswith('define'):
            m = DEFINE.match(ln); name = m.group(1)
            hdr = ln[m.end() - 1:]
            depth = 0; j = 0; q = False
            while True:
                ch = hdr[j]
                if ch == '"': q = not q
                if not q:
                    if ch == '(': depth += 1
                    elif ch == ')':
                        depth -= 1
                        if depth == 0: break
                j += 1
            ps = hdr[1:j]; params = []; pattrs = []
            for part in split_params(ps):
                if part.strip() == '...': continue
                p = P(tokenize(part), mod); t = p.ty(); at = p.attrs(); params.append((t, p.next())); pattrs.append(at)
            # return type: token before @name
            pre = ln[:m.start(1)]
            ptoks = tokenize(pre[len('define'):])
            pp = P(ptoks, mod)
            while pp.peek() in LINKAGE or pp.peek() in ('fastcc', 'ccc', 'coldcc') or pp.peek() in PARAM_ATTRS or pp.peek() in ('align', 'dereferenceable', 'dereferenceable_or_null'):
                if pp.peek() in ('align', 'dereferenceable', 'dereferenceable_or_null'):
                    pp.next()
                    if pp.eat('('): pp.next(); pp.expect(')')
                    else: pp.next()
                else: pp.next()
            ret = pp.ty()
            body = []
            while i < n and not lines[i].startswith('}'):
                body.append(lines[i]); i += 1
            i += 1
            nm = name[1:]
            if nm.startswith('"'): nm = nm[1:-1]
            mod.funcs[nm] = Func(nm, params, ret, body, mod, pattrs)
        elif ln.startswith('declare'):
            m = DECLARE.match(ln)
            if m: mod.decls[m.group(1)[1:]] = ln
        elif ln.startswith('@'):
            m = GLOBAL.match(ln)
            if not m: continue
            mod.globals[m.group(1)] = ('raw', m.group(2))
        elif ln.startswith('attributes #'):
            m = re.search(r'"target-features"="([^"]*)"', ln)
            if m and not mod.target_features: mod.target_features = m.group(1)
    return mod


def parse_global(mod, name):
    g = mod.globals.get(name)
    if g is None: return None
    if isinstance(g, Global): return g
    rest = g[1]
    rest = re.sub(r', comdat(\([^)]*\))?', '', rest)
    rest = re.sub(r', section "[^"]*"', '', rest)
    rest = MD1.sub('', rest)
    toks = tokenize(rest); p = P(toks, mod)
    while p.peek() in LINKAGE: p.next()
    if p.peek() == 'addrspace': p.next(); p.expect('('); p.next(); p.expect(')')
    while p.peek() in LINKAGE: p.next()
    kind = p.next()
    if kind not in ('global', 'constant'):
        if kind in ('alias', 'ifunc'): raise ParseError('alias global ' + name)
        raise ParseError('global kind ' + kind)
    ty = p.ty(); init = None
    if p.peek() is not None and p.peek() != ',':
        init = p.value(ty)
    align = 1
    while p.eat(','):
        if p.eat('align'): align = int(p.next())
        else: p.next()
    G = Global(name, ty, init, align, kind == 'constant'); mod.globals[name] = G
    return G


if __name__ == '__main__':
    import sys, time
    t = time.time(); m = parse_module(open(sys.argv[1]).read()); print('split', len(m.funcs), 'funcs in', round(time.time() - t, 2), 's')
    t = time.time(); ni = 0; bad = 0
    for f in m.funcs.values():
        try:
            f.parse(); ni += sum(len(b) for b in f.blocks.values())
        except Exception as e:
            bad += 1
            if bad < 10: print('ERR', f.name[:60], str(e)[:300])
    for g in list(m.globals):
        try: parse_global(m, g)
        except Exception as e:
            bad += 1
            if bad < 20: print('GERR', g, str(e)[:200])
    print('parsed', ni, 'instrs', bad, 'errors in', round(time.time() - t, 2), 's')
