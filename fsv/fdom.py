"""Floating-point domains.

BitsDom : IEEE-754 bit-precise (z3 FloatingPoint, RNE).  libm calls are uninterpreted functions.
RealDom : exact real arithmetic + counted rounding depth.  Division / sqrt handled per `div` mode:
            'plain'  z3 '/' term (small closed forms only)
            'frac'   fraction-free (num, den) pairs
            'pure'   purified: q*y == x, y != 0  (hypotheses collected in .hyp); optional three-address naming
"""
import z3
from fractions import Fraction
from .vals import *


def _isneg(t):
    if z3.is_app(t) and t.decl().kind() == z3.Z3_OP_FPA_NEG: return True, t.arg(0)
    return False, t


def _neg(t):
    n, t0 = _isneg(t)
    return t0 if n else z3.fpNeg(t)


class BitsDom:
    name = 'bits'

    def __init__(s):
        s.ufs = {}; s.hyp = []; s.nz = []; s.libm_calls = set(); s.cnt = 0

    def const(s, bits64, w):
        return FV(w, bv=dbits_to(bits64, w))

    def from_int_bits(s, b, w):
        return FV(w, bv=b)

    def var(s, name, w):
        return FV(w, bv=z3.BitVec(name, w))

    def _fold(s, t):
        return z3.simplify(t)

    def _mk(s, w, fp):
        return FV(w, fp=s._fold(fp))

    def bin(s, op, a, b):
        """IEEE operation, normalised by exact sign identities so that the harmless rewrites clang applies to the scalar
        reference (x-y -> x+(-y), (-x)*y -> -(x*y), (-x)/y -> -(x/y), operand order of + and *) give identical terms.
        The identities are re-proved by the solver for binary16 in lemmas.py (NaN payloads aside)."""
        x, y = a.asfp(), b.asfp()
        if op == 'fsub': op = 'fadd'; y = _neg(y)
        if op == 'fadd':
            if x.get_id() > y.get_id(): x, y = y, x
            r = z3.fpAdd(RNE, x, y)
        elif op in ('fmul', 'fdiv'):
            nx, x0 = _isneg(x); ny, y0 = _isneg(y)
            if op == 'fmul':
                if x0.get_id() > y0.get_id(): x0, y0 = y0, x0
                r = z3.fpMul(RNE, x0, y0)
            else: r = z3.fpDiv(RNE, x0, y0)
            if nx != ny: r = _neg(s._fold(r))
        elif op == 'frem': r = z3.fpRem(x, y)
        else: raise EncodingError(op)
        return s._mk(a.w, r)

    def fma(s, a, b, c):
        # fma(-x, y, z) == fma(x, -y, z): keep at most one negation, on the first (id-sorted) factor
        nx, x0 = _isneg(a.asfp()); ny, y0 = _isneg(b.asfp())
        if x0.get_id() > y0.get_id(): x0, y0 = y0, x0
        if nx != ny: x0 = z3.fpNeg(x0)
        return s._mk(a.w, z3.fpFMA(RNE, x0, y0, c.asfp()))
    def neg(s, a): return s._mk(a.w, _neg(a.asfp()))
    def abs(s, a): return s._mk(a.w, z3.fpAbs(a.asfp()))
    def sqrt(s, a): return s._mk(a.w, z3.fpSqrt(RNE, a.asfp()))

    def cmp(s, pred, a, b):
        x, y = a.asfp(), b.asfp()
        un = z3.Or(z3.fpIsNaN(x), z3.fpIsNaN(y))
        base = {'eq': z3.fpEQ(x, y), 'gt': z3.fpGT(x, y), 'ge': z3.fpGEQ(x, y), 'lt': z3.fpLT(x, y), 'le': z3.fpLEQ(x, y),
                'ne': z3.And(z3.Not(un), z3.Not(z3.fpEQ(x, y)))}
        if pred == 'true': return 1
        if pred == 'false': return 0
        if pred == 'ord': return simp(z3.Not(un))
        if pred == 'uno': return simp(un)
        k = pred[1:]
        if pred[0] == 'o': return simp(base[k])
        return simp(z3.Or(un, base[k]))

    def select(s, c, a, b):
        if a.bv is not None and b.bv is not None and a.fp is None and b.fp is None:
            return FV(a.w, bv=simp(z3.If(c, bv(a.bv, a.w), bv(b.bv, b.w))))
        return FV(a.w, fp=z3.If(c, a.asfp(), b.asfp()))

    def x86min(s, a, b):   # Intel: a<b ? a : b
        return s.select(s._b(s.cmp('olt', a, b)), a, b)
    def x86max(s, a, b):
        return s.select(s._b(s.cmp('ogt', a, b)), a, b)
    def _b(s, c): return z3.BoolVal(bool(c)) if isinstance(c, int) else c

    def minnum(s, a, b): return s._mk(a.w, z3.fpMin(a.asfp(), b.asfp()))
    def maxnum(s, a, b): return s._mk(a.w, z3.fpMax(a.asfp(), b.asfp()))

    def fpext(s, a, w): return s._mk(w, z3.fpFPToFP(RNE, a.asfp(), FSORT[w]))
    def fptrunc(s, a, w): return s._mk(w, z3.fpFPToFP(RNE, a.asfp(), FSORT[w]))
    def sitofp(s, x, iw, w): return s._mk(w, z3.fpSignedToFP(RNE, bv(x, iw), FSORT[w]))
    def uitofp(s, x, iw, w): return s._mk(w, z3.fpUnsignedToFP(RNE, bv(x, iw), FSORT[w]))
    def fptosi(s, a, iw): return simp(z3.fpToSBV(z3.RTZ(), a.asfp(), z3.BitVecSort(iw)))
    def fptoui(s, a, iw): return simp(z3.fpToUBV(z3.RTZ(), a.asfp(), z3.BitVecSort(iw)))
    def round(s, a, mode):
        rm = {'floor': z3.RTN(), 'ceil': z3.RTP(), 'trunc': z3.RTZ(), 'rint': z3.RNE(), 'nearbyint': z3.RNE(), 'round': z3.RNA()}[mode]
        return s._mk(a.w, z3.fpRoundToIntegral(rm, a.asfp()))

    def libm(s, name, args):
        w = args[0].w; key = (name, w, len(args))
        f = s.ufs.get(key)
        if f is None:
            srt = z3.BitVecSort(w)
            f = s.ufs[key] = z3.Function(f'libm_{name}_{w}', *([srt] * len(args) + [srt]))
        s.libm_calls.add(name)
        return FV(w, bv=f(*[bv(a.bits(), w) for a in args]))

    def copysign(s, a, b):
        w = a.w; sm = 1 << (w - 1)
        return FV(w, bv=simp((bv(a.bits(), w) & z3.BitVecVal(sm - 1, w)) | (bv(b.bits(), w) & z3.BitVecVal(sm, w))))

    def eq(s, a, b):
        """bit-for-bit equality for pure data movement; SMT-LIB `=` on FloatingPoint otherwise (identifies all NaNs,
        distinguishes +0 / -0) -- NaN payload and sign are outside every claim"""
        if a.fp is None and b.fp is None: return bv(a.bv, a.w) == bv(b.bv, b.w)
        return a.asfp() == b.asfp()

    def is_const(s, a):
        return isinstance(a.bits(), int)


U = {32: Fraction(1, 2 ** 24), 64: Fraction(1, 2 ** 53)}


class RealDom:
    name = 'real'

    def __init__(s, div='plain', nameall=False):
        s.div = div; s.nameall = nameall; s.hyp = []; s.nz = []; s.cnt = 0; s.ufs = {}; s.libm_calls = set()
        s.pure_cache = {}

    def const(s, bits64, w):
        import struct, math
        d = struct.unpack('<d', struct.pack('<Q', bits64))[0]
        if math.isinf(d) or math.isnan(d):
            # +-inf / nan constants (numeric_limits) cannot live in the real domain
            raise EncodingError('non-finite fp constant in real domain')
        return FV(w, r=z3.RealVal(Fraction(d)))

    def from_int_bits(s, b, w):
        if isinstance(b, int):
            return s.const(f2bits(bits2f(b, w), 64) if w == 32 else b, w)
        raise EncodingError('int bits -> float in real domain')

    def var(s, name, w): return FV(w, r=z3.Real(name))

    def _nm(s, r):
        if s.nameall and not z3.is_const(r) and not z3.is_rational_value(r):
            r2 = z3.simplify(r)
            if z3.is_const(r2) or z3.is_rational_value(r2): return r2
            s.cnt += 1; x = z3.Real(f'w!{s.cnt}'); s.hyp.append(x == r2); return x
        return r

    def _d(s, *xs): return max(x.depth for x in xs)

    def bin(s, op, a, b):
        u = 1
        if s.div == 'frac' and (a.den is not None or b.den is not None or op == 'fdiv'):
            return s._frac(op, a, b)
        if op == 'fadd': r = a.r + b.r
        elif op == 'fsub': r = a.r - b.r
        elif op == 'fmul': r = a.r * b.r
        elif op == 'fdiv':
            if z3.is_rational_value(b.r) and b.r.as_fraction() != 0:
                r = a.r * z3.RealVal(1 / b.r.as_fraction())
            elif s.div == 'pure':
                key = (a.r.get_id(), b.r.get_id())
                ent = s.pure_cache.get(key); q = None
                if ent is not None and ent[0].eq(a.r) and ent[1].eq(b.r): q = ent[2]
                if q is None:
                    s.cnt += 1; q = z3.Real(f'q!{s.cnt}'); s.hyp += [q * b.r == a.r]; s.nz.append(b.r); s.pure_cache[key] = (a.r, b.r, q)
                return FV(a.w, r=q, depth=s._d(a, b) + 1)
            else:
                s.nz.append(b.r); r = a.r / b.r
        else: raise EncodingError(op)
        return FV(a.w, r=s._nm(r), depth=s._d(a, b) + 1)

    def _frac(s, op, a, b):
        one = None
        an, ad, bn, bd = a.r, a.den, b.r, b.den
        same = ad is not None and bd is not None and z3.eq(ad, bd)
        if op in ('fadd', 'fsub'):
            sg = (lambda x, y: x + y) if op == 'fadd' else (lambda x, y: x - y)
            if ad is None and bd is None: n, d = sg(an, bn), None
            elif same: n, d = sg(an, bn), ad
            elif ad is None: n, d = sg(an * bd, bn), bd
            elif bd is None: n, d = sg(an, bn * ad), ad
            else: n, d = sg(an * bd, bn * ad), ad * bd
        elif op == 'fmul':
            n = an * bn
            d = None if (ad is None and bd is None) else (ad if bd is None else (bd if ad is None else ad * bd))
        elif op == 'fdiv':
            s.nz.append(bn)
            n = an if bd is None else an * bd
            d = bn if ad is None else ad * bn
        else: raise EncodingError(op)
        return FV(a.w, r=n, den=d, depth=s._d(a, b) + 1)

    def fma(s, a, b, c):
        if s.div == 'frac' and (a.den is not None or b.den is not None or c.den is not None):
            t = s._frac('fmul', a, b); r = s._frac('fadd', t, c); r.depth = s._d(a, b, c) + 1; return r
        return FV(a.w, r=s._nm(a.r * b.r + c.r), depth=s._d(a, b, c) + 1)

    def neg(s, a): return FV(a.w, r=-a.r, den=a.den, depth=a.depth)
    def abs(s, a):
        if a.den is not None: raise EncodingError('abs of fraction')
        return FV(a.w, r=z3.If(a.r >= 0, a.r, -a.r), depth=a.depth)

    def sqrt(s, a):
        if a.den is not None: raise EncodingError('sqrt of fraction')
        if z3.is_rational_value(a.r):
            f = a.r.as_fraction()
            import math
            n, d = f.numerator, f.denominator
            if n >= 0 and math.isqrt(n) ** 2 == n and math.isqrt(d) ** 2 == d:
                return FV(a.w, r=z3.RealVal(Fraction(math.isqrt(n), math.isqrt(d))), depth=a.depth + 1)
        key = ('sqrt', a.r.get_id())
        ent = s.pure_cache.get(key); q = None
        if ent is not None and ent[0].eq(a.r): q = ent[1]
        if q is None:
            s.cnt += 1; q = z3.Real(f'r!{s.cnt}'); s.hyp += [q * q == a.r, q >= 0]; s.pure_cache[key] = (a.r, q)
            s.nz.append(('nonneg', a.r))
        return FV(a.w, r=q, depth=a.depth + 1)

    def cmp(s, pred, a, b):
        if a.den is not None or b.den is not None: raise EncodingError('cmp of fraction')
        k = pred[1:] if pred not in ('true', 'false', 'ord', 'uno') else pred
        x, y = a.r, b.r
        if k == 'true' or k == 'ord': return 1
        if k == 'false' or k == 'uno': return 0
        return simp({'eq': x == y, 'gt': x > y, 'ge': x >= y, 'lt': x < y, 'le': x <= y, 'ne': x != y}[k])

    def select(s, c, a, b):
        if a.den is not None or b.den is not None: raise EncodingError('select of fraction')
        return FV(a.w, r=z3.If(c, a.r, b.r), depth=max(a.depth, b.depth))

    def _b(s, c): return z3.BoolVal(bool(c)) if isinstance(c, int) else c
    def x86min(s, a, b): return s.select(s._b(s.cmp('olt', a, b)), a, b)
    def x86max(s, a, b): return s.select(s._b(s.cmp('ogt', a, b)), a, b)
    minnum = x86min
    maxnum = x86max

    def fpext(s, a, w): return FV(w, r=a.r, den=a.den, depth=a.depth)
    def fptrunc(s, a, w): return FV(w, r=a.r, den=a.den, depth=a.depth + 2 ** 29)   # a float rounding inside a double chain: flagged
    def sitofp(s, x, iw, w):
        if isinstance(x, int): return FV(w, r=z3.RealVal(sgn(x, iw)))
        return FV(w, r=z3.ToReal(z3.BV2Int(x, is_signed=True)), depth=1)
    def uitofp(s, x, iw, w):
        if isinstance(x, int): return FV(w, r=z3.RealVal(x))
        return FV(w, r=z3.ToReal(z3.BV2Int(x, is_signed=False)), depth=1)
    def fptosi(s, a, iw): raise EncodingError('fptosi in real domain')
    fptoui = fptosi
    def round(s, a, mode): raise EncodingError('round in real domain')

    def libm(s, name, args):
        w = args[0].w; key = (name, w, len(args))
        if name in ('x86_rcp', 'x86_rcp14'):
            # hardware reciprocal approximation: (1/x)*(1+d), |d| <= 1.5*2^-12 (2^-14 for rcp14), d a fresh unknown per call.
            # An identity that holds with exact division is then refutable (the solver picks d != 0) and the counterexample is
            # replayed natively with the real instruction
            s.cnt += 1; d = z3.Real(f'rcp_err!{s.cnt}'); lim = z3.Q(3, 2 ** 13) if name == 'x86_rcp' else z3.Q(1, 2 ** 14)
            s.hyp += [d <= lim, d >= -lim]; s.libm_calls.add(name)
            one = FV(w, r=z3.RealVal(1)); q = s.bin('fdiv', one, args[0])
            return s.bin('fmul', q, FV(w, r=1 + d))
        f = s.ufs.get(key)
        if f is None:
            f = s.ufs[key] = z3.Function(f'libm_{name}_{w}', *([z3.RealSort()] * (len(args) + 1)))
        s.libm_calls.add(name)
        return FV(w, r=f(*[a.r for a in args]), depth=max(a.depth for a in args) + 1)

    def copysign(s, a, b): raise EncodingError('copysign in real domain')

    def eq(s, a, b):
        if a.den is None and b.den is None: return a.r == b.r
        ad = a.den if a.den is not None else z3.RealVal(1); bd = b.den if b.den is not None else z3.RealVal(1)
        return a.r * bd == b.r * ad

    def is_const(s, a): return a.den is None and z3.is_rational_value(a.r)


class UFDom(BitsDom):
    """floats as bit-vectors with UNINTERPRETED arithmetic: fadd/fmul/... are uninterpreted functions over the bit patterns.
    Used where the property is about *which* elements are combined (views, index tensors, aliasing): equality then follows
    by congruence in QF_UFBV without bit-blasting IEEE arithmetic.  Sound for proving equalities (anything valid for all
    interpretations is valid for IEEE); a counterexample may be spurious and is only reported after native replay."""
    name = 'bits'
    uf = True

    def _f(s, nm, w, n, ret=None):
        key = ('uf', nm, w, n)
        f = s.ufs.get(key)
        if f is None:
            srt = z3.BitVecSort(w)
            f = s.ufs[key] = z3.Function(f'uf_{nm}_{w}', *([srt] * n + [ret or srt]))
        return f

    def _ap(s, nm, *xs):
        w = xs[0].w
        return FV(w, bv=s._f(nm, w, len(xs))(*[bv(x.bits(), w) for x in xs]))

    def bin(s, op, a, b):
        if op == 'fsub': return s._ap('fadd', a, s.neg(b))
        if op in ('fadd', 'fmul'):
            # commutativity instance as a hypothesis (IEEE + and * are commutative up to NaN payload): operand order is then irrelevant
            x, y = bv(a.bits(), a.w), bv(b.bits(), b.w); f = s._f(op, a.w, 2)
            if not x.eq(y): s.hyp.append(f(x, y) == f(y, x))
        return s._ap(op, a, b)

    def fma(s, a, b, c): return s._ap('fma', a, b, c)
    def neg(s, a):
        t = a.bits()
        if not isinstance(t, int) and z3.is_app(t) and t.decl().name() == f'uf_fneg_{a.w}': return FV(a.w, bv=t.arg(0))
        return s._ap('fneg', a)
    def abs(s, a): return s._ap('fabs', a)
    def sqrt(s, a): return s._ap('fsqrt', a)
    def asfp(s): raise EncodingError('UF domain has no FP view')

    def cmp(s, pred, a, b):
        if pred == 'true': return 1
        if pred == 'false': return 0
        w = a.w; f = s._f('fcmp_' + pred, w, 2, z3.BoolSort())
        return simp(f(bv(a.bits(), w), bv(b.bits(), w)))

    def select(s, c, a, b): return FV(a.w, bv=simp(z3.If(c, bv(a.bits(), a.w), bv(b.bits(), b.w))))
    def minnum(s, a, b): return s._ap('fminnum', a, b)
    def maxnum(s, a, b): return s._ap('fmaxnum', a, b)
    def fpext(s, a, w): return FV(w, bv=s._cvt('fpext', a.w, w)(bv(a.bits(), a.w)))
    def fptrunc(s, a, w): return FV(w, bv=s._cvt('fptrunc', a.w, w)(bv(a.bits(), a.w)))
    def _cvt(s, nm, w0, w1):
        key = ('cvt', nm, w0, w1); f = s.ufs.get(key)
        if f is None: f = s.ufs[key] = z3.Function(f'uf_{nm}_{w0}_{w1}', z3.BitVecSort(w0), z3.BitVecSort(w1))
        return f
    def sitofp(s, x, iw, w): return FV(w, bv=s._cvt('sitofp', iw, w)(bv(x, iw)))
    def uitofp(s, x, iw, w): return FV(w, bv=s._cvt('uitofp', iw, w)(bv(x, iw)))
    def fptosi(s, a, iw): return simp(s._cvt('fptosi', a.w, iw)(bv(a.bits(), a.w)))
    def fptoui(s, a, iw): return simp(s._cvt('fptoui', a.w, iw)(bv(a.bits(), a.w)))
    def round(s, a, mode): return s._ap('round_' + mode, a)
    def copysign(s, a, b): return s._ap('copysign', a, b)
    def eq(s, a, b): return bv(a.bits(), a.w) == bv(b.bits(), b.w)
    def const(s, bits64, w): return FV(w, bv=dbits_to(bits64, w))


def uf_concrete(t):
    """evaluate a ground term over the uf_* functions with IEEE semantics (numpy); returns python int bits or None"""
    import numpy as np
    if z3.is_bv_value(t): return t.as_long()
    if not z3.is_app(t): return None
    nm = t.decl().name()
    if nm.startswith('ufint_'):
        args = [uf_concrete(t.arg(i)) for i in range(t.num_args())]
        if any(a is None for a in args): return None
        _, op, w = nm.split('_'); w = int(w); M_ = (1 << w) - 1
        sg = lambda x: x - (1 << w) if x >> (w - 1) else x
        a, b = args
        if op == 'mul': return (a * b) & M_
        if b == 0: return None
        if op == 'udiv': return a // b
        if op == 'urem': return a % b
        q = abs(sg(a)) // abs(sg(b)); q = q if (sg(a) < 0) == (sg(b) < 0) else -q
        if op == 'sdiv': return q & M_
        return (sg(a) - q * sg(b)) & M_
    if not nm.startswith('uf_'): return None
    args = [uf_concrete(t.arg(i)) for i in range(t.num_args())]
    if any(a is None for a in args): return None
    parts = nm.split('_'); w = int(parts[-1]); op = '_'.join(parts[1:-1])
    ft = np.float32 if w == 32 else np.float64
    def F(b): return np.frombuffer(int(b).to_bytes(w // 8, 'little'), dtype=ft)[0]
    def B(x): return int.from_bytes(np.array([x], dtype=ft).tobytes(), 'little')
    with np.errstate(all='ignore'):
        if op == 'fadd': return B(F(args[0]) + F(args[1]))
        if op == 'fmul': return B(F(args[0]) * F(args[1]))
        if op == 'fdiv': return B(F(args[0]) / F(args[1]))
        if op == 'fneg': return args[0] ^ (1 << (w - 1))
        if op == 'fabs': return args[0] & ((1 << (w - 1)) - 1)
        if op == 'fsqrt': return B(np.sqrt(F(args[0])))
    return None
