"""run a list of cases under one configuration"""
import os, sys, time, json, subprocess, multiprocessing as mp, struct, math, shutil
from fractions import Fraction
from . import build, runner, proc
from .case import *
from .runner import Native, model_inputs

NPROC = int(os.environ.get('FSV_JOBS', '16'))


def _compile_subset(cases, cfg, d, name, extra_prelude=''):
    src = os.path.join(d, name + '.cpp'); ll = os.path.join(d, name + '.ll')
    open(src, 'w').write(runner.tu_source(cases, extra_prelude))
    ok, err, cmd, dt = build.compile_ir(src, cfg, ll)
    return ok, err, cmd, src, ll, dt


def _err_summary(err):
    lines = [l for l in err.split('\n') if 'error' in l]
    return (lines[0] if lines else err[:300])[:400]


def compile_cases(cases, cfg, d, extra_prelude=''):
    """returns (good_cases, irpath, failures[(case, msg, cmd)], seconds, src).
    Failing wrappers are located from the line numbers in clang's diagnostics (one wrapper per source line),
    removed, and the rest recompiled; a wrapper blamed this way is confirmed by compiling it alone."""
    import re
    cur = list(cases); fails = []; total = 0.0
    for rnd in range(8):
        if not cur: return [], None, fails, total, None
        ok, err, cmd, src, ll, dt = _compile_subset(cur, cfg, d, 'tu', extra_prelude); total += dt
        if ok: return cur, ll, fails, total, src
        text = open(src).read().split('\n')
        line2case = {}
        ln = runner.tu_source([], extra_prelude).count('\n')
        # recompute the line of each case
        pos = {}
        for i, l in enumerate(text):
            m = re.match(r'extern "C" __attribute__\(\(noinline\)\) void [kr]_(\w+)\(', l)
            if m: pos[i + 1] = m.group(1)
        starts = sorted(pos)
        def case_of(line):
            import bisect
            k = bisect.bisect_right(starts, line) - 1
            return pos[starts[k]] if k >= 0 else None
        blamed = {}
        cur_err = None; attributed = False
        for l in err.split('\n'):
            if re.search(r': (fatal error|error): ', l): cur_err = l; attributed = False
            m = re.match(r'.*tu\.cpp:(\d+):\d+: (fatal error|error|note)', l)
            if not m or cur_err is None or attributed: continue
            cid = case_of(int(m.group(1)))
            if cid:
                attributed = True
                if cid not in blamed: blamed[cid] = cur_err
        if not blamed:
            # maybe the library headers themselves do not compile under this configuration
            ok0, err0, cmd0, *_ = _compile_subset([], cfg, d, 'empty', extra_prelude)
            if not ok0:
                for c in cur: fails.append((c, 'the library headers alone do not compile in this configuration: ' + _err_summary(err0), ' '.join(cmd0)))
                return [], None, fails, total, None
            raise RuntimeError('TU does not compile and no wrapper could be blamed: ' + _err_summary(err))
        byid = {c.id: c for c in cur}
        for cid, msg in blamed.items():
            fails.append((byid[cid], _err_summary(msg), ' '.join(cmd)))
        cur = [c for c in cur if c.id not in blamed]
    raise RuntimeError('compile failure loop did not converge')


def _pool_worker(task_q, res_q, ll, good, opts):
    runner._init_worker(ll, good, opts)
    while True:
        i = task_q.get()
        if i is None: return
        res_q.put(('start', i, os.getpid()))
        r = runner.run_case_worker(i)
        res_q.put(('done', i, r))


def pool_run(ids, nj, ll, good, opts):
    """own process pool: a worker stuck inside a solver call (z3 does not always honour its timeout) or crashed is killed by
    the parent after the case's wall budget and replaced; the case is reported inconclusive, never passed"""
    import queue as _q
    ctx = mp.get_context('fork'); byid = {c.id: c for c in good}
    order = sorted(ids, key=lambda i: -getattr(byid[i], 'weight', 1))     # expected-heavy cases first (better tail packing)
    task_q = ctx.Queue(); res_q = ctx.Queue()
    for i in order: task_q.put(i)
    procs = {}
    def spawn():
        p = ctx.Process(target=_pool_worker, args=(task_q, res_q, ll, good, opts), daemon=True); p.start(); procs[p.pid] = p
    for _ in range(nj): spawn()
    done = {}; running = {}    # pid -> (case id, t0)
    grace = 45
    while len(done) < len(ids):
        try:
            kind, i, payload = res_q.get(timeout=2.0)
            if kind == 'start': running[payload] = (i, time.time())
            else:
                done[i] = payload
                for pid, (ci, _) in list(running.items()):
                    if ci == i: del running[pid]
        except _q.Empty:
            pass
        now = time.time()
        for pid, (ci, t0) in list(running.items()):
            p = procs.get(pid)
            budget = int(getattr(byid[ci], 'budget', opts.get('case_budget', 150)))
            dead = p is None or not p.is_alive()
            if dead or now - t0 > budget + grace:
                if not dead:
                    p.kill(); p.join(5)
                if ci not in done:
                    done[ci] = {'id': ci, 'status': 'inconclusive', 'steps': 0, 'wall': now - t0,
                                'error': ('worker process died (solver crash)' if dead else f'killed after {int(now - t0)}s: stuck in a solver call beyond the case budget of {budget}s')}
                del running[pid]; procs.pop(pid, None)
                if len(done) < len(ids): spawn()
        # all workers gone but tasks left (should not happen)
        if not any(p.is_alive() for p in procs.values()) and len(done) < len(ids):
            spawn()
    for _ in procs: task_q.put(None)
    for p in procs.values():
        p.join(2)
        if p.is_alive(): p.kill()
    return [done[i] for i in ids]


def fbytes(bs, a, i):
    raw = int.from_bytes(bs[i * a.es:(i + 1) * a.es], 'little')
    return raw


def close(x, y, w, tol=None):
    if math.isnan(x) or math.isnan(y): return math.isnan(x) and math.isnan(y)
    if x == y: return True
    tol = tol or (2e-3 if w == 32 else 1e-9)
    return abs(x - y) <= tol * max(1.0, abs(x), abs(y))


def run_batch(tag, cases, cfg, opts=None, extra_prelude=''):
    """returns dict: results per case, compile failures, validation stats, replay outcomes"""
    opts = dict(opts or {}); t0 = time.time()
    d = build.workdir(os.path.join(tag, cfg.key()))
    out = {'cfg': cfg.key(), 'tag': tag, 'results': [], 'compile_fail': [], 'validated': 0, 'val_mismatch': [], 'replays': [],
           'native_ok': False, 'gxx_diff': []}
    good, ll, fails, cdt, src = compile_cases(cases, cfg, d, extra_prelude)
    out['compile_s'] = cdt
    for c, msg, cmd in fails: out['compile_fail'].append({'id': c.id, 'desc': c.desc, 'msg': msg, 'cmd': cmd})
    if not good: return out
    # native build in the background
    drv = os.path.join(d, 'drv.cpp'); exe = os.path.join(d, 'drv')
    open(drv, 'w').write(runner.tu_source(good, extra_prelude) + runner.driver_source(good))
    ncmd = ['clang++-14'] + cfg.flags() + ['-o', exe, drv]
    nproc = proc.Bg(ncmd)
    gproc = None
    if opts.get('gxx'):
        gcmd = ['g++'] + cfg.flags() + ['-o', exe + '_gxx', drv]
        gproc = proc.Bg(gcmd)
    # symbolic runs
    ids = [c.id for c in good]
    nj = min(NPROC, len(ids))
    if nj > 1 and not opts.get('serial'):
        results = pool_run(ids, nj, ll, good, opts)
    else:
        runner._init_worker(ll, good, opts)
        results = [runner.run_case_worker(i) for i in ids]
    out['results'] = results
    byid = {c.id: c for c in good}
    # native validation + replays
    _, nerr = nproc.communicate()
    if nproc.returncode != 0:
        out['native_err'] = nerr[-1500:]
        return out
    out['native_ok'] = True
    nat = Native(exe, good)
    reqs = []; meta = []
    for r in results:
        c = byid[r['id']]
        for k, p in enumerate(r.get('val_pred', [])):
            inp = {a.name: (bytes.fromhex(p['inp'][a.name]) if not isinstance(a, Scal) else p['inp'][a.name]) for a in c.args}
            reqs.append((c, 'k', inp, -1)); meta.append((r, c, p))
    if reqs:
        try: nres = nat.run_many(reqs)
        except subprocess.TimeoutExpired:
            # find the request(s) that do not terminate instead of discarding the whole batch
            nres = []
            for rq in reqs:
                try: nres += nat.run_many([rq], timeout=30)
                except subprocess.TimeoutExpired: nres.append(None)
        for (r, c, p), nr in zip(meta, nres):
            if nr is None or 'crash' in nr:
                out['val_mismatch'].append({'id': c.id, 'what': 'native crash' if nr is not None else 'native run does not terminate within 30 s', 'detail': str(nr)[:300], 'inp': p['inp']}); continue
            if p['status'] == 'raised':
                if not nr['exc']: out['val_mismatch'].append({'id': c.id, 'what': 'encoder predicts exception, native returned'})
                else: out['validated'] += 1
                continue
            if nr['exc']:
                out['val_mismatch'].append({'id': c.id, 'what': 'native raised, encoder predicts normal return'}); continue
            bad = None; compared = 0
            for a in c.args:
                if isinstance(a, Scal) or a.role == 'in': continue
                for i, pv in enumerate(p['out'][a.name]):
                    if pv is None or pv[0] == 'u': continue
                    raw = fbytes(nr['bufs'][a.name], a, i); compared += 1
                    if pv[0] == 'b':
                        if raw != pv[1]: bad = (a.name, i, hex(pv[1]), hex(raw)); break
                    else:
                        x = bits2f(raw, a.w); y = float(Fraction(pv[1]))
                        if not close(x, y, a.w): bad = (a.name, i, pv[1], x); break
                if bad: break
            if bad: out['val_mismatch'].append({'id': c.id, 'what': 'encoder/native output mismatch', 'detail': str(bad), 'inp': p['inp']})
            elif compared: out['validated'] += 1
    # replay counterexamples
    for r in results:
        c = byid[r['id']]
        for sat in r.get('sat', []):
            try: rep = replay_sat(nat, c, sat, cfg, d)
            except Exception as e: rep = {'confirmed': False, 'why': 'replay error: ' + repr(e)[:200]}
            sat['replay'] = rep
            out['replays'].append({'id': c.id, 'label': sat['label'], 'confirmed': rep.get('confirmed'), 'why': rep.get('why', '')})
    # confirm memory findings natively: guard pages first, AddressSanitizer build second
    asan = None
    for r in results:
        c = byid[r['id']]
        for mv in r.get('mem', []):
            inp = model_inputs(c, mv.get('model') or {})
            conf = None; why = ''
            try:
                mis = c.args[0].es if (mv['kind'] == 'align' and not isinstance(c.args[0], Scal)) else -1
                rk = nat.run_many([(c, 'k', inp, mis)])[0]
                if 'crash' in rk: conf = True; why = f'native run crashes with signal {-rk["crash"]} (buffers flush against guard pages)'
            except subprocess.TimeoutExpired:
                why = 'native timeout'
            if conf is None and mv['kind'] in ('oob', 'lifetime', 'null'):
                if asan is None:
                    aexe = os.path.join(d, 'drv_asan')
                    pa = proc.run(['clang++-14'] + [f for f in cfg.flags() if f != '-O2'] + ['-O1', '-g', '-fsanitize=address', '-fno-omit-frame-pointer', '-o', aexe, drv])
                    asan = Native(aexe, good) if pa.returncode == 0 else False
                if asan:
                    try:
                        os.environ['ASAN_OPTIONS'] = 'detect_leaks=0:abort_on_error=0'
                        ra = asan.run_many([(c, 'k', inp, -1)])[0]
                        if 'crash' in ra:
                            conf = True; why = 'AddressSanitizer: ' + (ra.get('stderr', '').split('\n')[1:2] or [''])[0][:200]
                    except subprocess.TimeoutExpired: pass
            mv['confirmed'] = bool(conf); mv['why'] = why
            mv['inp'] = hexinp(inp)
    if gproc is not None:
        _, gerr = gproc.communicate()
        if gproc.returncode == 0 and reqs:
            gn = Native(exe + '_gxx', good)
            try:
                gres = gn.run_many(reqs)
                for (r, c, p), a_, b_ in zip(meta, nres, gres):
                    if a_ and b_ and 'bufs' in a_ and 'bufs' in b_ and a_['bufs'] != b_['bufs']:
                        out['gxx_diff'].append(c.id)
            except Exception as e:
                out['gxx_err'] = str(e)[:200]
        elif gproc.returncode != 0: out['gxx_err'] = gerr[-500:]
    out['wall'] = time.time() - t0
    out['src'] = src
    return out


def replay_sat(nat, c, sat, cfg, d):
    """run the counterexample natively; confirmed iff kernel and reference (or the native check) disagree"""
    model = sat.get('model') or {}
    import random
    fills = (1, 0, 2) if getattr(c, 'dom', 'bits') == 'real' else (0,)
    if sat.get('kind') == 'unwritten' or not model: fills = fills + (random.Random(1), random.Random(2), random.Random(3))
    tries = [model_inputs(c, model, fill=f) for f in fills]
    if getattr(c, 'dom', 'bits') == 'uf':
        # float arithmetic is uninterpreted in this domain: the model's float operands carry no meaning (often 0, where wrong and right
        # coincide); keep the integer part of the model (ranges, indices) and retry with random float data
        fv = {a.var(i) for a in c.args if not isinstance(a, Scal) and a.kind == 'f' for i in range(a.n)}
        m2 = {k: v for k, v in model.items() if k not in fv}
        tries += [model_inputs(c, m2, fill=random.Random(k)) for k in (11, 12, 13)]
    last = {}
    for inp in tries:
        try:
            if c.ref_src is not None:
                rk, rr = nat.run_many([(c, 'k', inp, -1), (c, 'r', inp, -1)])
            else:
                rk = nat.run_many([(c, 'k', inp, -1)])[0]; rr = None
        except subprocess.TimeoutExpired:
            return {'confirmed': False, 'why': 'native timeout'}
        if 'crash' in rk: return {'confirmed': True, 'why': 'native crash ' + str(rk)[:200], 'inp': hexinp(inp)}
        if hasattr(c, 'native_check'):
            bad = c.native_check(inp, rk, rr)
            if bad: return {'confirmed': True, 'why': bad, 'inp': hexinp(inp)}
            last = {'confirmed': False, 'why': 'native check passes', 'inp': hexinp(inp)}; continue
        if rr is None: return {'confirmed': False, 'why': 'no native oracle'}
        if rk['exc'] != rr['exc']: return {'confirmed': True, 'why': f'exception behaviour differs k={rk["exc"]} r={rr["exc"]}', 'inp': hexinp(inp)}
        diffs = []
        for a in c.args:
            if isinstance(a, Scal) or a.role == 'in': continue
            kb, rb = rk['bufs'][a.name], rr['bufs'][a.name]
            for i in range(a.n):
                x, y = fbytes(kb, a, i), fbytes(rb, a, i)
                if x == y: continue
                if a.kind == 'f' and getattr(c, 'dom', 'bits') == 'real':
                    if close(bits2f(x, a.w), bits2f(y, a.w), a.w, tol=getattr(c, 'replay_tol', None)): continue
                diffs.append(f'{a.name}[{i}]: kernel={hex(x)} ref={hex(y)}')
        if diffs: return {'confirmed': True, 'why': '; '.join(diffs[:4]), 'inp': hexinp(inp)}
        last = {'confirmed': False, 'why': 'native kernel == native reference on model input', 'inp': hexinp(inp)}
    return last


def hexinp(inp): return {k: (v.hex() if isinstance(v, (bytes, bytearray)) else v) for k, v in inp.items()}
