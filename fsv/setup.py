"""MANIFEST.setup_cmd: byte-compile the framework and check the tool versions (nothing is fetched)"""
import subprocess, sys, compileall, os, shutil
here = os.path.dirname(os.path.abspath(__file__))
ok = compileall.compile_dir(here, quiet=1) and compileall.compile_dir(os.path.join(os.path.dirname(here), 'props'), quiet=1)
for tool, arg in (('clang++-14', '--version'), ('/usr/bin/z3', '--version'), ('z3-new', '--version'), ('cvc5', '--version'), ('g++', '--version')):
    if shutil.which(tool) is None: print('MISSING', tool); ok = False; continue
    out = subprocess.run([tool, arg], capture_output=True, text=True).stdout.split('\n')[0]
    print(tool, ':', out)
import z3
print('z3 python', z3.get_version_string())
from . import lemmas
lm = lemmas.prove_all()
print('normalisation lemmas:', lm)
ok = ok and all(v[0] == 'unsat' for v in lm.values())
sys.exit(0 if ok else 1)
