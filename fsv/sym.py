"""Symbolic interpreter for clang-14 LLVM IR (typed pointers), over the value domain in vals.py.

One Interp object executes ONE path.  Symbolic branches are resolved by a decision list; explore() re-runs
the harness for every feasible decision prefix (paths are short: shapes are compile-time constants).
"""
import z3, re, math
from .ir import *
from .vals import *
from .fdom import BitsDom, RealDom
from . import intrin
from .smt import guarded_check


class PathEnd(Exception):
    def __init__(s, status, info=''): s.status = status; s.info = info


class MemViolation:
    def __init__(s, kind, what, model=None, pc=None): s.kind = kind; s.what = what; s.model = model; s.pc = pc
    def __repr__(s): return f'MemViolation({s.kind}: {s.what})'


# ------------------------------------------------------------------ layout
def sizeof(t):
    if isinstance(t, IntTy): return max(1, (t.w + 7) // 8)
    if isinstance(t, FpTy): return 16 if t.w == 80 else t.w // 8
    if isinstance(t, PtrTy): return 8
    if isinstance(t, VecTy): return (t.n * (t.el.w if isinstance(t.el, (IntTy, FpTy)) else 64) + 7) // 8
    if isinstance(t, ArrTy): return t.n * sizeof(t.el)
    if isinstance(t, StructTy):
        if t.els is None: raise EncodingError('sizeof opaque ' + repr(t))
        c = getattr(t, '_size', None)
        if c is not None: return c
        off = 0
        for e in t.els:
            if not t.packed:
                a = alignof(e); off = (off + a - 1) // a * a
            off += sizeof(e)
        if not t.packed:
            a = alignof(t); off = (off + a - 1) // a * a
        t._size = off
        return off
    raise EncodingError('sizeof ' + repr(t))


def alignof(t):
    if isinstance(t, (IntTy, FpTy, PtrTy)): return min(sizeof(t), 16) if not isinstance(t, IntTy) else min(1 << (sizeof(t) - 1).bit_length(), 8)
    if isinstance(t, VecTy):
        n = sizeof(t); return 1 << (n - 1).bit_length()
    if isinstance(t, ArrTy): return alignof(t.el)
    if isinstance(t, StructTy):
        if t.packed: return 1
        return max([alignof(e) for e in t.els] or [1])
    raise EncodingError('alignof ' + repr(t))


def field_off(t, i):
    off = 0
    for k, e in enumerate(t.els):
        if not t.packed:
            a = alignof(e); off = (off + a - 1) // a * a
        if k == i: return off
        off += sizeof(e)
    raise EncodingError('field_off')


class Stats:
    def __init__(s):
        s.steps = 0; s.queries = 0; s.funcs = set(); s.intrinsics = set(); s.stubs = set(); s.mem_sym = 0
        s.solver_s = 0.0; s.allocs = []


class Interp:
    STEP_LIMIT = 3_000_000

    def __init__(s, mod, dom, decisions=None, pc=None, stats=None):
        s.mod = mod; s.dom = dom; s.solver = z3.Solver(); s.solver.set('timeout', 20000); s.pc = []; s.decisions = list(decisions or []); s.taken = []
        s.st = stats or Stats(); s.viol = []; s.regions = []; s.globals = {}; s.rcnt = 0; s.bases = {}
        s.notes = []; s.val_cache = {}; s.fma_fused = '+fma' in mod.target_features
        s.heap_calls = []; s.depth = 0; s.name_ite = False; s.pc_gen = 0; s.uf_int = False
        for c in (pc or []): s.assume(c)

    # ------------------------------------------------------------ solver helpers
    def assume(s, c):
        if isinstance(c, int):
            if not c: raise PathEnd('infeasible')
            return
        s.pc.append(c); s.solver.add(c); s.pc_gen += 1   # cached value sets stay valid as supersets

    def feasible(s, c):
        if isinstance(c, int): return bool(c)
        import time
        s.st.queries += 1; t = time.time()
        s.solver.push(); s.solver.add(c); r = guarded_check(s.solver, 20); s.solver.pop()
        s.st.solver_s += time.time() - t
        if r == z3.unknown: raise EncodingError('feasibility unknown')
        return r == z3.sat

    def model_for(s, c):
        s.solver.push(); s.solver.add(c); r = s.solver.check()
        m = s.solver.model() if r == z3.sat else None
        s.solver.pop(); return m

    def values_of(s, t, limit=600):
        """all values a BV term can take under the path condition"""
        if isinstance(t, int): return [t]
        key = t.get_id()
        if key in s.val_cache:
            t0, vals = s.val_cache[key]
            if t0.eq(t): return vals          # superset of the currently feasible values (the path condition only grows)
        import time
        t0 = time.time(); vals = []
        s.solver.push()
        while True:
            s.st.queries += 1
            r = guarded_check(s.solver, 20)
            if r == z3.unknown: s.solver.pop(); raise EncodingError('values_of unknown')
            if r != z3.sat: break
            v = s.solver.model().eval(t, model_completion=True).as_long(); vals.append(v)
            if len(vals) > limit: s.solver.pop(); raise EncodingError('too many values for symbolic term')
            s.solver.add(t != v)
        s.solver.pop(); s.st.solver_s += time.time() - t0
        vals.sort(); s.val_cache[key] = (t, vals)     # holding t keeps its AST id from being recycled
        return vals

    def concretize(s, t):
        if isinstance(t, int): return t
        vs = s.values_of(t, limit=1) if False else None
        s.solver.push(); r = s.solver.check()
        if r != z3.sat: s.solver.pop(); raise PathEnd('infeasible')
        v = s.solver.model().eval(t, model_completion=True).as_long()
        s.solver.add(t != v); r = s.solver.check(); s.solver.pop(); s.st.queries += 2
        return v if r == z3.unsat else t

    def choose(s, conds):
        """conds: list of (formula or int); returns index of alternative taken on this path"""
        feas = [i for i, c in enumerate(conds) if s.feasible(c)]
        if not feas: raise PathEnd('infeasible')
        if len(feas) == 1:
            i = feas[0]
        else:
            k = len(s.taken)
            if k < len(s.decisions): i = s.decisions[k]
            else: i = feas[0]
            if i not in feas: raise PathEnd('infeasible')
            s.taken.append((i, feas))
        s.assume(conds[i])
        return i

    # ------------------------------------------------------------ regions
    def new_region(s, name, size, align, kind='alloca', writable=True):
        s.rcnt += 1
        r = Region(f'{name}#{s.rcnt}', size, align, kind, writable); s.regions.append(r); return r

    def base_of(s, r):
        b = s.bases.get(r.name)
        if b is None:
            b = z3.BitVec('base!' + r.name, 64); s.bases[r.name] = b
            s.assume(z3.URem(b, z3.BitVecVal(r.align, 64)) == 0)
            s.assume(z3.ULT(b, z3.BitVecVal(1 << 46, 64))); s.assume(z3.UGE(b, z3.BitVecVal(4096, 64)))
        return b

    def global_region(s, name):
        r = s.globals.get(name)
        if r is not None: return r
        g = parse_global(s.mod, name)
        if g is None or g.init is None:
            # external object (typeinfo, vtable, std stream): an opaque zero-size region; any access to it is reported by the bounds check
            r = s.new_region('extern:' + name, 0, 8, 'extern', writable=False); s.globals[name] = r
            return r
        r = s.new_region(name, sizeof(g.ty), g.align, 'global', writable=not g.const)
        s.globals[name] = r
        s.init_const(r, 0, g.ty, g.init)
        return r

    def init_const(s, r, off, ty, v):
        k = v[0]
        if k == 'zero' or k == 'undef':
            if k == 'zero':
                n = sizeof(ty)
                s._fill_zero(r, off, ty)
            return
        if k == 'agg':
            if isinstance(ty, StructTy):
                for i, (et, ev) in enumerate(v[1]): s.init_const(r, off + field_off(ty, i), et, ev)
            else:
                es = sizeof(ty.el)
                for i, (et, ev) in enumerate(v[1]): s.init_const(r, off + i * es, et, ev)
            return
        if k == 'str':
            for i, b in enumerate(v[1]): r.cells[off + i] = (b, 1)
            return
        if k == 'vec':
            es = sizeof(ty.el)
            for i, ev in enumerate(v[1]): s.init_const(r, off + i * es, ty.el, ev)
            return
        val = s.const(v, ty, None)
        r.cells[off] = (val, sizeof(ty))

    def _fill_zero(s, r, off, ty):
        if isinstance(ty, StructTy):
            for i, e in enumerate(ty.els): s._fill_zero(r, off + field_off(ty, i), e)
        elif isinstance(ty, (ArrTy, VecTy)):
            es = sizeof(ty.el)
            for i in range(ty.n): s._fill_zero(r, off + i * es, ty.el)
        elif isinstance(ty, FpTy): r.cells[off] = (s.dom.const(0, ty.w), sizeof(ty))
        elif isinstance(ty, PtrTy): r.cells[off] = (Ptr(None, 0), 8)
        else: r.cells[off] = (0, sizeof(ty))

    # ------------------------------------------------------------ constants
    def const(s, v, ty, env):
        k = v[0]
        if k == 'local':
            try: return env[v[1]]
            except KeyError: raise EncodingError('unbound ' + v[1])
        if k == 'int':
            if isinstance(ty, IntTy): return mask(v[1], ty.w)
            if isinstance(ty, FpTy): return s.dom.const(f2bits(float(v[1]), 64), ty.w)
            return v[1]
        if k == 'fpbits': return s.dom.const(v[1], ty.w)
        if k == 'undef':
            if isinstance(ty, VecTy): return [UNDEF] * ty.n
            if isinstance(ty, ArrTy): return [s.const(('undef', ty.el), ty.el, env) for _ in range(ty.n)]
            if isinstance(ty, StructTy): return [s.const(('undef', e), e, env) for e in ty.els]
            return UNDEF
        if k == 'zero':
            if isinstance(ty, VecTy): return [s.const(('zero', ty.el), ty.el, env) for _ in range(ty.n)]
            if isinstance(ty, ArrTy): return [s.const(('zero', ty.el), ty.el, env) for _ in range(ty.n)]
            if isinstance(ty, StructTy): return [s.const(('zero', e), e, env) for e in ty.els]
            if isinstance(ty, FpTy): return s.dom.const(0, ty.w)
            if isinstance(ty, PtrTy): return Ptr(None, 0)
            return 0
        if k == 'vec': return [s.const(e, ty.el, env) for e in v[1]]
        if k == 'agg': return [s.const(ev, et, env) for et, ev in v[1]]
        if k == 'null': return Ptr(None, 0)
        if k == 'global':
            nm = v[1]
            key = nm[1:] if not nm.startswith('@"') else nm[2:-1]
            if key in s.mod.funcs or key in s.mod.decls: return FnPtr(key)
            return Ptr(s.global_region(nm), 0)
        if k == 'cgep':
            _, bt, pv, idx = v
            p = s.const(pv, PtrTy(bt), env)
            return s.gep(bt, p, [(it, s.const(iv, it, env)) for it, iv in idx])
        if k == 'ccast':
            _, op, ft, cv, tt = v
            a = s.const(cv, ft, env)
            return s.cast(op, a, ft, tt)
        if k == 'cbin':
            _, op, at, a, b = v
            return s.binop(op, s.const(a, at, env), s.const(b, at, env), at.w)
        raise EncodingError('const ' + repr(v)[:80])

    # ------------------------------------------------------------ ints
    def as_int(s, v, w):
        """force a bit-vector view (python int or z3 BV) of an int-typed slot"""
        if isinstance(v, int): return v
        if isinstance(v, Sl): return v.bits(w // 8)
        if isinstance(v, FV):
            if v.r is not None: raise EncodingError('integer op on real-domain float bits')
            return v.bits()
        if isinstance(v, Pack):
            b = pack_bits(v)
            if b is None: raise EncodingError('integer op on packed non-bit value')
            return b
        if isinstance(v, Undef): return v
        if isinstance(v, Ptr):
            if v.r is None: return v.off if isinstance(v.off, int) else v.off
            return simp(s.base_of(v.r) + bv(v.off, 64))
        if z3.is_bool(v): return v if w == 1 else bv(v, w)
        return v

    def as_float(s, v, w):
        if isinstance(v, FV): return v
        if isinstance(v, Undef): return v
        if isinstance(v, Pack):
            if len(v.parts) == 1 and isinstance(v.parts[0][0], FV): return v.parts[0][0]
            b = pack_bits(v)
            if b is None: raise EncodingError('float from packed value')
            return s.dom.from_int_bits(b, w)
        if isinstance(v, int) or z3.is_bv(v): return s.dom.from_int_bits(v, w)
        raise EncodingError('as_float ' + repr(v))

    def binop(s, op, a, b, w):
        if isinstance(a, Undef) or isinstance(b, Undef):
            # and x,0 / or x,-1 / mul x,0 are defined, everything else stays undef
            o = b if isinstance(a, Undef) else a
            if isinstance(o, int):
                if op == 'and' and o == 0: return 0
                if op == 'or' and o == mask(-1, w): return o
            return UNDEF
        if isinstance(a, (FV, Pack)) or isinstance(b, (FV, Pack)):
            r = s.float_bits_idiom(op, a, b, w)
            if r is not None: return r
        if isinstance(a, Ptr) or isinstance(b, Ptr):
            a = s.as_int(a, w); b = s.as_int(b, w)
        a = s.as_int(a, w); b = s.as_int(b, w)
        if w == 1 and not (isinstance(a, int) and isinstance(b, int)):
            A = z3.BoolVal(bool(a)) if isinstance(a, int) else to_bool(a)
            B = z3.BoolVal(bool(b)) if isinstance(b, int) else to_bool(b)
            if op == 'and': return simp(z3.And(A, B))
            if op == 'or': return simp(z3.Or(A, B))
            if op in ('xor', 'add', 'sub'): return simp(z3.Xor(A, B))
            if op == 'mul': return simp(z3.And(A, B))
            raise EncodingError('i1 op ' + op)
        if isinstance(a, int) and isinstance(b, int):
            A, B = mask(a, w), mask(b, w)
            if op == 'add': return mask(A + B, w)
            if op == 'sub': return mask(A - B, w)
            if op == 'mul': return mask(A * B, w)
            if op == 'and': return A & B
            if op == 'or': return A | B
            if op == 'xor': return A ^ B
            if op == 'shl': return mask(A << B, w) if B < w else UNDEF
            if op == 'lshr': return A >> B if B < w else UNDEF
            if op == 'ashr': return mask(sgn(A, w) >> B, w) if B < w else UNDEF
            if op in ('udiv', 'urem', 'sdiv', 'srem') and B == 0: raise PathEnd('ub', 'division by zero')
            if op == 'udiv': return A // B
            if op == 'urem': return A % B
            SA, SB = sgn(A, w), sgn(B, w)
            if op == 'sdiv':
                q = abs(SA) // abs(SB); return mask(q if (SA < 0) == (SB < 0) else -q, w)
            if op == 'srem':
                r = abs(SA) % abs(SB); return mask(r if SA >= 0 else -r, w)
            raise EncodingError(op)
        A, B = bv(a, w), bv(b, w)
        if s.uf_int and op == 'mul' and not isinstance(a, int) and not isinstance(b, int):   # (div/rem stay exact: seq::size() divides symbolic by symbolic)
            # data arithmetic abstracted to an uninterpreted function (address arithmetic always has a constant operand):
            # used by the view/alias properties, which are about WHICH elements are combined, not about the product itself
            key = ('ufint', op, w); f = s.dom.ufs.get(key)
            if f is None: f = s.dom.ufs[key] = z3.Function(f'ufint_{op}_{w}', z3.BitVecSort(w), z3.BitVecSort(w), z3.BitVecSort(w))
            if op == 'mul' and not A.eq(B): s.dom.hyp.append(f(A, B) == f(B, A))
            return f(A, B)
        if op in ('udiv', 'urem', 'sdiv', 'srem'):
            if s.feasible(B == 0):
                s.viol.append(MemViolation('ub', f'{op} by zero possible', s.model_for(B == 0)))
                s.assume(B != 0)
        r = {'add': lambda: A + B, 'sub': lambda: A - B, 'mul': lambda: A * B, 'and': lambda: A & B, 'or': lambda: A | B,
             'xor': lambda: A ^ B, 'shl': lambda: A << B, 'lshr': lambda: z3.LShR(A, B), 'ashr': lambda: A >> B,
             'udiv': lambda: z3.UDiv(A, B), 'urem': lambda: z3.URem(A, B), 'sdiv': lambda: A / B,
             'srem': lambda: z3.SRem(A, B)}[op]()
        return simp(r)

    def float_bits_idiom(s, op, a, b, w):
        """bitwise ops applied to float bit patterns (sign flip, abs mask, lane select masks)"""
        if isinstance(b, (FV, Pack)) and not isinstance(a, (FV, Pack)): a, b = b, a
        if isinstance(a, FV) and isinstance(b, int) and a.w == w:
            sm = 1 << (w - 1); ones = mask(-1, w)
            if op == 'xor' and b == sm: return s.dom.neg(a)
            if op == 'xor' and b == 0: return a
            if op == 'and' and b == sm - 1: return s.dom.abs(a)
            if op == 'and' and b == ones: return a
            if op == 'and' and b == 0: return 0
            if op == 'or' and b == 0: return a
        if isinstance(a, Pack) and isinstance(b, int) and op in ('lshr', 'shl') and b % 8 == 0 and b < w:
            nb = w // 8; k = b // 8
            if op == 'lshr': return norm_pack(Pack([(slice_val(a, nb, k, nb - k), nb - k), (0, k)]))
            return norm_pack(Pack([(0, k), (slice_val(a, nb, 0, nb - k), nb - k)]))
        if isinstance(a, Pack) and isinstance(b, int) and op in ('and', 'or', 'xor'):
            # lane-wise: apply to each part when widths line up
            outs = []; sh = 0; ok = True
            for v, n in a.parts:
                piece = (b >> (8 * sh)) & ((1 << (8 * n)) - 1); sh += n
                if isinstance(v, FV):
                    r = s.float_bits_idiom(op, v, piece, 8 * n)
                    if r is None: ok = False; break
                    outs.append((r, n))
                elif isinstance(v, Undef): outs.append((UNDEF, n))
                else:
                    try: outs.append((s.binop(op, v, piece, 8 * n), n))
                    except EncodingError: ok = False; break
            if ok: return norm_pack(Pack(outs))
        return None

    def icmp(s, pred, a, b, w):
        if isinstance(a, Undef) or isinstance(b, Undef): return UNDEF
        if isinstance(a, Ptr) and isinstance(b, Ptr):
            if a.r is b.r: a, b = a.off, b.off
            elif pred in ('eq', 'ne') and (a.r is None or b.r is None):
                # null vs object
                return 0 if pred == 'eq' else 1
            elif pred in ('eq', 'ne'): return 0 if pred == 'eq' else 1
            else: a, b = s.as_int(a, 64), s.as_int(b, 64)
        a = s.as_int(a, w); b = s.as_int(b, w)
        if isinstance(a, int) and isinstance(b, int):
            A, B = mask(a, w), mask(b, w); SA, SB = sgn(a, w), sgn(b, w)
            return int({'eq': A == B, 'ne': A != B, 'ult': A < B, 'ule': A <= B, 'ugt': A > B, 'uge': A >= B, 'slt': SA < SB,
                        'sle': SA <= SB, 'sgt': SA > SB, 'sge': SA >= SB}[pred])
        if w == 1:
            A = z3.BoolVal(bool(a)) if isinstance(a, int) else to_bool(a)
            B = z3.BoolVal(bool(b)) if isinstance(b, int) else to_bool(b)
            if pred == 'eq': return simp(A == B)
            if pred == 'ne': return simp(A != B)
            a = bv(A, 1); b = bv(B, 1)
        A, B = bv(a, w), bv(b, w)
        r = {'eq': lambda: A == B, 'ne': lambda: A != B, 'ult': lambda: z3.ULT(A, B), 'ule': lambda: z3.ULE(A, B),
             'ugt': lambda: z3.UGT(A, B), 'uge': lambda: z3.UGE(A, B), 'slt': lambda: A < B, 'sle': lambda: A <= B,
             'sgt': lambda: A > B, 'sge': lambda: A >= B}[pred]()
        return simp(r)

    def ite(s, c, a, b, w=None):
        """c: z3 Bool"""
        r = s.ite0(c, a, b, w)
        if s.name_ite and not isinstance(c, int):
            # name the selected value (definition added to the hypotheses): keeps min/max networks linear for the solver
            if isinstance(r, FV) and r.r is not None and r.den is None and z3.is_app_of(r.r, z3.Z3_OP_ITE):
                s.dom.cnt += 1; v = z3.Real(f'sel!{s.dom.cnt}'); s.dom.hyp.append(v == r.r); return FV(r.w, r=v, depth=r.depth)
            if z3.is_expr(r) and z3.is_bv(r) and z3.is_app_of(r, z3.Z3_OP_ITE):
                s.dom.cnt += 1; v = z3.BitVec(f'sel!{s.dom.cnt}', r.size()); s.dom.hyp.append(v == r); return v
        return r

    def ite0(s, c, a, b, w=None):
        # a conditionally initialised cell read back: uninitialised under the complement, where any value is allowed
        if isinstance(a, CondVal): a = a.v
        if isinstance(b, CondVal): b = b.v
        if a is b: return a
        if isinstance(c, int): return a if c else b
        if isinstance(a, list): return [s.ite(c, x, y, w) for x, y in zip(a, b)]
        if isinstance(a, Undef) and isinstance(b, Undef): return UNDEF
        if isinstance(a, Undef) or isinstance(b, Undef):
            # a select between a defined value and undef may legally pick the defined one
            return b if isinstance(a, Undef) else a
        if isinstance(a, FV) or isinstance(b, FV):
            w = a.w if isinstance(a, FV) else b.w
            return s.dom.select(c, s.as_float(a, w), s.as_float(b, w))
        if isinstance(a, MuxPtr) or isinstance(b, MuxPtr): return MuxPtr(c, a, b)
        if isinstance(a, Ptr) and isinstance(b, Ptr):
            if a.r is b.r:
                if isinstance(a.off, int) and isinstance(b.off, int) and a.off == b.off: return a
                return Ptr(a.r, simp(z3.If(c, bv(a.off, 64), bv(b.off, 64))))
            return MuxPtr(c, a, b)
        if isinstance(a, Pack) or isinstance(b, Pack):
            if isinstance(a, Pack) and isinstance(b, Pack) and [n for _, n in a.parts] == [n for _, n in b.parts] and not any(isinstance(x, Sl) for x, _ in a.parts + b.parts):
                return Pack([(s.ite(c, x, y), n) for (x, n), (y, _) in zip(a.parts, b.parts)])
            w = 8 * (a.nbytes() if isinstance(a, Pack) else b.nbytes())
            a = s.as_int(a, w); b = s.as_int(b, w)
        if isinstance(a, int) and isinstance(b, int) and a == b: return a
        if (isinstance(a, int) or z3.is_bool(a)) and (isinstance(b, int) or z3.is_bool(b)) and (z3.is_bool(a) or z3.is_bool(b)):
            A = z3.BoolVal(bool(a)) if isinstance(a, int) else a; B = z3.BoolVal(bool(b)) if isinstance(b, int) else b
            return simp(z3.If(c, A, B))
        if isinstance(a, int) and isinstance(b, int):
            if w is None: raise EncodingError('select between two constants of unknown width')
        else: w = a.size() if not isinstance(a, int) else b.size()
        return simp(z3.If(c, bv(a, w), bv(b, w)))

    def cast(s, op, a, fty, tty):
        if isinstance(fty, VecTy) and op != 'bitcast':
            return [s.cast(op, x, fty.el, tty.el) for x in a]
        if isinstance(a, Undef): return [UNDEF] * tty.n if isinstance(tty, VecTy) else UNDEF
        if op in ('zext', 'sext', 'trunc'):
            fw, tw = fty.w, tty.w
            if op == 'trunc' and isinstance(a, Pack):
                r = slice_val(a, a.nbytes(), 0, tw // 8) if tw % 8 == 0 else None
                if r is not None: return r
            if op == 'zext' and isinstance(a, (FV, Pack)) and tw % 8 == 0 and fw % 8 == 0:
                return norm_pack(Pack([(a, fw // 8), (0, (tw - fw) // 8)]))
            a = s.as_int(a, fw)
            if isinstance(a, int): return mask(a, tw) if op != 'sext' else mask(sgn(a, fw), tw)
            if z3.is_bool(a):
                if op == 'trunc': return a
                return simp(z3.If(a, z3.BitVecVal(mask(-1, tw) if op == 'sext' else 1, tw), z3.BitVecVal(0, tw)))
            if op == 'trunc' and tw == 1: return simp(z3.Extract(0, 0, a) == 1)
            return simp({'zext': lambda: z3.ZeroExt(tw - fw, a), 'sext': lambda: z3.SignExt(tw - fw, a),
                         'trunc': lambda: z3.Extract(tw - 1, 0, a)}[op]())
        if op == 'bitcast':
            if isinstance(fty, PtrTy): return a
            return s.bitcast(a, fty, tty)
        if op == 'fpext': return s.dom.fpext(a, tty.w)
        if op == 'fptrunc': return s.dom.fptrunc(a, tty.w)
        if op == 'sitofp': return s.dom.sitofp(s.as_int(a, fty.w), fty.w, tty.w)
        if op == 'uitofp':
            a = s.as_int(a, fty.w)
            if fty.w == 1 and not isinstance(a, int): a = bv(a, 8); return s.dom.uitofp(a, 8, tty.w)
            return s.dom.uitofp(a, fty.w, tty.w)
        if op == 'fptosi': return s.dom.fptosi(a, tty.w)
        if op == 'fptoui': return s.dom.fptoui(a, tty.w)
        if op == 'ptrtoint':
            if a.r is None: return a.off
            r = simp(s.base_of(a.r) + bv(a.off, 64))
            return r if tty.w == 64 else simp(z3.Extract(tty.w - 1, 0, bv(r, 64)))
        if op == 'inttoptr':
            if isinstance(a, int) and a == 0: return Ptr(None, 0)
            if isinstance(a, Ptr): return a
            # recognise base!R + off
            for r in s.regions:
                b = s.bases.get(r.name)
                if b is not None:
                    off = simp(bv(a, 64) - b)
                    if isinstance(off, int): return Ptr(r, off)
            raise EncodingError('inttoptr')
        raise EncodingError('cast ' + op)

    def bitcast(s, a, fty, tty):
        """value-level bitcast between scalar/vector types, lazily through lane provenance"""
        fl = a if isinstance(fty, VecTy) else [a]
        fe = fty.el if isinstance(fty, VecTy) else fty
        te = tty.el if isinstance(tty, VecTy) else tty
        tn = tty.n if isinstance(tty, VecTy) else 1
        fb, tb = sizeof(fe), sizeof(te)
        if isinstance(fe, IntTy) and fe.w < 8 or isinstance(te, IntTy) and te.w < 8:
            # <N x i1> <-> iN
            if isinstance(fe, IntTy) and fe.w == 1 and not isinstance(tty, VecTy):
                bits = [to_bool(x) if not isinstance(x, Undef) else 0 for x in fl]
                if all(isinstance(x, int) for x in bits): return sum((x & 1) << i for i, x in enumerate(bits))
                return simp(z3.Concat(*[bv(x, 1) if not isinstance(x, int) else z3.BitVecVal(x, 1) for x in reversed(bits)]))
            if isinstance(te, IntTy) and te.w == 1 and not isinstance(fty, VecTy):
                x = s.as_int(a, fty.w)
                if isinstance(x, int): return [(x >> i) & 1 for i in range(tn)]
                return [simp(z3.Extract(i, i, x) == 1) for i in range(tn)]
            raise EncodingError('sub-byte bitcast')
        if fb == tb:
            out = [s.retag(x, te) for x in fl]
        elif fb < tb:
            k = tb // fb
            out = [norm_pack(Pack([(x, fb) for x in fl[i * k:(i + 1) * k]])) for i in range(tn)]
            out = [s.retag(x, te) for x in out]
        else:
            k = fb // tb; out = []
            for x in fl:
                for j in range(k): out.append(s.retag(slice_val(x, fb, j * tb, tb), te))
        return out if isinstance(tty, VecTy) else out[0]

    def retag(s, v, te):
        if isinstance(v, Undef): return v
        if isinstance(te, FpTy):
            if isinstance(v, Pack):
                # a float lane assembled from several cells (e.g. two floats viewed as one double by a shuffle): keep lazy
                try: return s.as_float(v, te.w)
                except EncodingError: return v
            return s.as_float(v, te.w)
        if isinstance(te, IntTy):
            if isinstance(v, (FV, Pack, int)) or z3.is_bv(v): return v
        if isinstance(te, PtrTy): return v
        raise EncodingError('retag')

    # ------------------------------------------------------------ memory
    def _chk(s, r, off, sz, align, what, write):
        if r is None: s.viol.append(MemViolation('null', f'{what} through null pointer')); raise PathEnd('memfault')
        if not r.alive:
            s.viol.append(MemViolation('lifetime', f'{what} of {r.name} after lifetime end')); raise PathEnd('memfault')
        if write and not r.writable:
            s.viol.append(MemViolation('readonly', f'{what} to read-only {r.name}')); raise PathEnd('memfault')
        if off < 0 or off + sz > r.size:
            s.viol.append(MemViolation('oob', f'{what} of {sz} bytes at offset {off} of {r.name} (size {r.size})', s.model_for(z3.BoolVal(True)), list(s.pc)))
            raise PathEnd('memfault')
        if align > 1 and (off % align != 0 or r.align % align != 0):
            # address = base + off with base only known to be a multiple of r.align
            g = math.gcd(r.align, off) if off else r.align
            if g % align != 0:
                s.viol.append(MemViolation('align', f'{what} with alignment {align} at offset {off} of {r.name} (guaranteed alignment {r.align})', None, list(s.pc)))
                # continue: misalignment does not change the value semantics

    def find_cell(s, r, o):
        cells = r.cells
        for k in range(0, 65):
            c = cells.get(o - k)
            if c is not None:
                if c[1] > k: return o - k, c
                return None
        return None

    def load_raw(s, r, off, sz):
        c = r.cells.get(off)
        if c is not None and c[1] == sz: return c[0]
        parts = []; o = off; end = off + sz
        while o < end:
            hit = s.find_cell(r, o)
            if hit is None:
                # uninitialised byte(s): find next cell start
                nx = o + 1
                while nx < end and nx not in r.cells: nx += 1
                parts.append((UNDEF, nx - o)); o = nx; continue
            co, (cv, csz) = hit
            lo = o - co; n = min(co + csz, end) - o
            parts.append((cv if (lo == 0 and n == csz) else slice_val(cv, csz, lo, n), n)); o += n
        if len(parts) == 1: return parts[0][0]
        return norm_pack(Pack(parts))

    def clear_range(s, r, off, sz):
        end = off + sz; cells = r.cells
        # cell starting before off that overlaps
        o = off
        hit = s.find_cell(r, off)
        if hit is not None and hit[0] < off:
            co, (cv, csz) = hit
            del cells[co]
            cells[co] = (slice_val(cv, csz, 0, off - co), off - co)
            if co + csz > end: cells[end] = (slice_val(cv, csz, end - co, co + csz - end), co + csz - end)
        for o in range(off, end):
            c = cells.get(o)
            if c is not None:
                del cells[o]
                if o + c[1] > end: cells[end] = (slice_val(c[0], c[1], end - o, o + c[1] - end), o + c[1] - end)

    def store_raw(s, r, off, v, sz):
        if isinstance(v, Pack) and not (len(v.parts) == 1 and isinstance(v.parts[0][0], Sl)):
            o = off
            for pv, n in v.parts: s.store_raw(r, o, Pack([(pv, n)]) if isinstance(pv, Sl) else pv, n); o += n
            return
        c = r.cells.get(off)
        if c is None or c[1] != sz: s.clear_range(r, off, sz)
        elif sz > 1:
            pass
        # any cells strictly inside (off, off+sz) when c matched exactly cannot exist
        r.cells[off] = (v, sz)

    def coerce(s, v, ty):
        if isinstance(v, Undef): return v
        if isinstance(ty, FpTy): return s.as_float(v, ty.w)
        if isinstance(ty, PtrTy):
            if isinstance(v, Ptr) or isinstance(v, FnPtr): return v
            if isinstance(v, Pack):
                if len(v.parts) == 1: return s.coerce(v.parts[0][0], ty)
                b = pack_bits(v)
                if b == 0: return Ptr(None, 0)
                if any(isinstance(x, Undef) for x, _ in v.parts): return UNDEF
                raise EncodingError('pointer from packed bytes')
            if isinstance(v, int) and v == 0: return Ptr(None, 0)
            return s.cast('inttoptr', v, I64, ty)
        if isinstance(ty, IntTy):
            if isinstance(v, Pack) and any(isinstance(x, Undef) for x, _ in v.parts) and all(isinstance(x, (Undef, int)) for x, _ in v.parts):
                return UNDEF if all(isinstance(x, Undef) for x, _ in v.parts) else v
            if ty.w == 1 and isinstance(v, int): return v & 1
            return v
        return v

    def load(s, p, ty, align=1):
        if isinstance(p, Undef): raise EncodingError('load through undef pointer')
        if isinstance(p, MuxPtr): return s.ite(p.c, s.load(p.a, ty, align), s.load(p.b, ty, align))
        if isinstance(ty, VecTy):
            es = sizeof(ty.el)
            if isinstance(ty.el, IntTy) and ty.el.w < 8: raise EncodingError('load of sub-byte vector')
            if isinstance(p.off, int):
                s._chk(p.r, p.off, es * ty.n, align, f'load {ty}', False)
                return [s.coerce(s.load_raw(p.r, p.off + i * es, es), ty.el) for i in range(ty.n)]
            return [s.load(Ptr(p.r, s.addoff(p.off, i * es)), ty.el, min(align, es) if i else align) for i in range(ty.n)]
        if isinstance(ty, ArrTy):
            es = sizeof(ty.el); return [s.load(Ptr(p.r, s.addoff(p.off, i * es)), ty.el, 1) for i in range(ty.n)]
        if isinstance(ty, StructTy):
            return [s.load(Ptr(p.r, s.addoff(p.off, field_off(ty, i))), e, 1) for i, e in enumerate(ty.els)]
        sz = sizeof(ty); off = p.off
        if isinstance(off, int):
            s._chk(p.r, off, sz, align, f'load {ty}', False)
            return s.coerce(s.load_raw(p.r, off, sz), ty)
        return s.coerce(s.load_sym(p.r, off, sz, align, ty), ty)

    def store(s, p, v, ty, align=1):
        if isinstance(p, Undef): raise EncodingError('store through undef pointer')
        if isinstance(p, MuxPtr):
            s.store(p.a, s.ite(p.c, v, s.load(p.a, ty, 1)), ty, align); s.store(p.b, s.ite(p.c, s.load(p.b, ty, 1), v), ty, align); return
        if isinstance(ty, VecTy):
            es = sizeof(ty.el)
            if isinstance(p.off, int):
                s._chk(p.r, p.off, es * ty.n, align, f'store {ty}', True)
                for i, l in enumerate(v): s.store_raw(p.r, p.off + i * es, l, es)
                p.r.wlog.append((p.off, es * ty.n))
                return
            for i, l in enumerate(v): s.store(Ptr(p.r, s.addoff(p.off, i * es)), l, ty.el, min(align, es) if i else align)
            return
        if isinstance(ty, ArrTy):
            es = sizeof(ty.el)
            for i, l in enumerate(v): s.store(Ptr(p.r, s.addoff(p.off, i * es)), l, ty.el, 1)
            return
        if isinstance(ty, StructTy):
            for i, e in enumerate(ty.els): s.store(Ptr(p.r, s.addoff(p.off, field_off(ty, i))), v[i], e, 1)
            return
        sz = sizeof(ty); off = p.off
        if isinstance(off, int):
            s._chk(p.r, off, sz, align, f'store {ty}', True)
            s.store_raw(p.r, off, v, sz); p.r.wlog.append((off, sz))
        else:
            s.store_sym(p.r, off, v, sz, align)

    def sym_offsets(s, r, off, sz, align, what, write):
        """feasible concrete offsets of a symbolic access; out-of-bounds / misaligned ones are violations"""
        if r is None: s.viol.append(MemViolation('null', what + ' through null')); raise PathEnd('memfault')
        if not r.alive: s.viol.append(MemViolation('lifetime', what + ' after lifetime end')); raise PathEnd('memfault')
        s.st.mem_sym += 1
        vals = s.values_of(off)
        good = []
        for v in vals:
            sv = sgn(v, 64)
            if sv < 0 or sv + sz > r.size:
                m = s.model_for(bv(off, 64) == v)
                if m is None: continue       # stale cached value, no longer feasible
                s.viol.append(MemViolation('oob', f'{what} of {sz} bytes at symbolic offset; offset {sv} of {r.name} (size {r.size}) is reachable', m, list(s.pc)))
                s.assume(bv(off, 64) != v)
            else:
                if align > 1:
                    g = math.gcd(r.align, sv) if sv else r.align
                    if g % align != 0:
                        s.viol.append(MemViolation('align', f'{what} align {align} at reachable offset {sv} of {r.name} (guaranteed {r.align})', s.model_for(bv(off, 64) == v), list(s.pc)))
                good.append(sv)
        if not good: raise PathEnd('memfault')
        return good

    def load_sym(s, r, off, sz, align, ty):
        offs = s.sym_offsets(r, off, sz, align, f'load {ty}', False)
        res = None
        for o in reversed(offs):
            v = s.coerce(s.load_raw(r, o, sz), ty)
            res = v if res is None else s.ite(bv(off, 64) == o, v, res, 8 * sz)
        return res

    def store_sym(s, r, off, v, sz, align):
        if not r.writable: s.viol.append(MemViolation('readonly', 'store to read-only')); raise PathEnd('memfault')
        offs = s.sym_offsets(r, off, sz, align, f'store', True)
        if len(offs) == 1:
            s.store_raw(r, offs[0], v, sz); r.wlog.append((offs[0], sz)); return
        for o in offs:
            old = s.load_raw(r, o, sz)
            if isinstance(old, Undef) or (isinstance(old, Pack) and any(isinstance(x, Undef) for x, _ in old.parts)):
                new = CondVal(bv(off, 64) == o, v)
            elif isinstance(old, CondVal):
                new = CondVal(z3.Or(bv(off, 64) == o, old.c), s.ite(bv(off, 64) == o, v, old.v))
            else:
                if isinstance(v, FV) and not isinstance(old, FV): old = s.as_float(old, v.w)
                new = s.ite(bv(off, 64) == o, v, old, 8 * sz)
            s.store_raw(r, o, new, sz); r.wlog.append((o, sz))

    def addoff(s, a, b):
        if isinstance(a, int) and isinstance(b, int): return a + b
        return simp(bv(mask(a, 64) if isinstance(a, int) else a, 64) + bv(mask(b, 64) if isinstance(b, int) else b, 64))

    def gep(s, bty, p, idx):
        if isinstance(p, Undef): return UNDEF
        if isinstance(p, MuxPtr): return MuxPtr(p.c, s.gep(bty, p.a, idx), s.gep(bty, p.b, idx))
        off = p.off; t = bty; first = True
        for (it, v) in idx:
            if isinstance(v, list): raise EncodingError('vector gep')
            if isinstance(v, Undef): return UNDEF
            v = s.as_int(v, it.w)
            if isinstance(v, int): v = sgn(v, it.w)
            elif it.w < 64: v = simp(z3.SignExt(64 - it.w, v))
            if first: scale = sizeof(t); first = False
            elif isinstance(t, StructTy):
                if not isinstance(v, int): raise EncodingError('symbolic struct index')
                off = s.addoff(off, field_off(t, v)); t = t.els[v]; continue
            elif isinstance(t, (ArrTy, VecTy)):
                t = t.el; scale = sizeof(t)
            else: raise EncodingError('gep into ' + repr(t))
            off = s.addoff(off, v * scale if isinstance(v, int) else simp(v * scale))
        if isinstance(off, int) and off >= 1 << 63: off -= 1 << 64
        return Ptr(p.r, off)

    # ------------------------------------------------------------ execution
    def run(s, fname, args):
        f = s.mod.funcs.get(fname)
        if f is None: raise EncodingError('no function ' + fname)
        return s.run_function(f, args)

    def run_function(s, f, args):
        f.parse(); s.st.funcs.add(f.name); s.depth += 1
        if s.depth > 200: raise EncodingError('call depth')
        env = {}
        for (t, n), a in zip(f.params, args): env[n] = a
        blk = f.entry; prev = None; blocks = f.blocks
        allocas = []
        try:
            while True:
                instrs = blocks[blk]
                i = 0
                if instrs and instrs[0].op == 'phi':
                    vals = []
                    while instrs[i].op == 'phi':
                        I = instrs[i]; vals.append((I.dst, s.const(I.inc[prev], I.ty, env))); i += 1
                    for d, v in vals: env[d] = v
                nxt = None
                for I in instrs[i:]:
                    s.st.steps += 1
                    if s.st.steps > s.STEP_LIMIT: raise EncodingError('step limit')
                    r = s.step(I, env, f, allocas)
                    if r is not None:
                        kind, val = r
                        if kind == 'br': nxt = val; break
                        if kind == 'ret': return val
                if nxt is None: raise EncodingError('fell off block ' + blk + ' in ' + f.name)
                prev = blk; blk = nxt
        finally:
            s.depth -= 1
            for r in allocas: r.alive = False

    def step(s, I, env, f, allocas):
        op = I.op; C = s.const
        if op in BINOPS:
            a = C(I.a, I.ty, env); b = C(I.b, I.ty, env)
            if op[0] == 'f' and op != 'frem' or op == 'frem':
                if isinstance(I.ty, VecTy): env[I.dst] = [s.fbin(op, x, y, I.ty.el.w) for x, y in zip(a, b)]
                else: env[I.dst] = s.fbin(op, a, b, I.ty.w)
            elif isinstance(I.ty, VecTy):
                w = I.ty.el.w; env[I.dst] = [s.binop(op, x, y, w) for x, y in zip(a, b)]
            else: env[I.dst] = s.binop(op, a, b, I.ty.w)
        elif op == 'getelementptr':
            env[I.dst] = s.gep(I.bty, C(I.ptr, I.pty, env), [(it, C(iv, it, env)) for it, iv in I.idx])
        elif op == 'load':
            env[I.dst] = s.load(C(I.ptr, I.pty, env), I.ty, I.align)
        elif op == 'store':
            s.store(C(I.ptr, I.pty, env), C(I.val, I.ty, env), I.ty, I.align)
        elif op == 'br':
            if I.cond is None: return ('br', I.t)
            c = C(I.cond, I1, env)
            if isinstance(c, Undef):
                s.viol.append(MemViolation('undef-branch', f'branch on uninitialised value in {f.name}')); raise PathEnd('undef-branch')
            c = to_bool(c)
            if isinstance(c, int): return ('br', I.t if c else I.f)
            k = s.choose([c, z3.Not(c)])
            return ('br', I.t if k == 0 else I.f)
        elif op in ('icmp',):
            a = C(I.a, I.ty, env); b = C(I.b, I.ty, env)
            if isinstance(I.ty, VecTy):
                w = I.ty.el.w if isinstance(I.ty.el, IntTy) else 64
                env[I.dst] = [s.icmp(I.pred, x, y, w) for x, y in zip(a, b)]
            else: env[I.dst] = s.icmp(I.pred, a, b, I.ty.w if isinstance(I.ty, IntTy) else 64)
        elif op == 'fcmp':
            a = C(I.a, I.ty, env); b = C(I.b, I.ty, env)
            if isinstance(I.ty, VecTy): env[I.dst] = [s.fcmp(I.pred, x, y, I.ty.el.w) for x, y in zip(a, b)]
            else: env[I.dst] = s.fcmp(I.pred, a, b, I.ty.w)
        elif op == 'phi':
            raise EncodingError('phi in the middle of a block')
        elif op == 'select':
            c = C(I.c, I.cty, env); a = C(I.a, I.ty, env); b = C(I.b, I.ty, env)
            ety = I.ty.el if isinstance(I.ty, VecTy) else I.ty
            w_ = ety.w if isinstance(ety, IntTy) else None
            if isinstance(I.cty, VecTy):
                env[I.dst] = [s.select1(ci, x, y, w_) for ci, x, y in zip(c, a, b)]
            elif isinstance(I.ty, VecTy): env[I.dst] = [s.select1(c, x, y, w_) for x, y in zip(a, b)]
            else: env[I.dst] = s.select1(c, a, b, w_)
        elif op in CASTS:
            env[I.dst] = s.cast(op, C(I.a, I.fty, env), I.fty, I.ty)
        elif op == 'shufflevector':
            a = C(I.a, I.ty, env); b = C(I.b, I.ty, env); ab = a + b; m = I.mask
            if m[0] == 'zero': idxs = [0] * I.mty.n
            elif m[0] == 'undef': idxs = [None] * I.mty.n
            else: idxs = [None if e[0] == 'undef' else e[1] for e in m[1]]
            env[I.dst] = [UNDEF if i is None else ab[i] for i in idxs]
        elif op == 'insertelement':
            a = list(C(I.a, I.ty, env)); i = C(I.c, I.ity, env)
            if not isinstance(i, int): raise EncodingError('symbolic insertelement index')
            a[i] = C(I.b, I.ety, env); env[I.dst] = a
        elif op == 'extractelement':
            a = C(I.a, I.ty, env); i = C(I.b, I.ity, env)
            if not isinstance(i, int):
                vals = s.values_of(bv(i, I.ity.w)); res = None
                for v in reversed(vals):
                    if v >= len(a): continue
                    res = a[v] if res is None else s.ite(bv(i, I.ity.w) == v, a[v], res)
                env[I.dst] = res
            else: env[I.dst] = a[i]
        elif op == 'call' or op == 'invoke':
            r = s.call(I, env)
            if op == 'invoke': return ('br', I.normal)
        elif op == 'alloca':
            n = 1
            if I.count is not None:
                n = C(I.count[1], I.count[0], env)
                if not isinstance(n, int): raise EncodingError('symbolic alloca count')
            r = s.new_region(f'{f.name[:24]}.{I.dst}', sizeof(I.ty) * n, I.align, 'alloca'); allocas.append(r)
            env[I.dst] = Ptr(r, 0)
        elif op == 'ret':
            return ('ret', None if I.a is None else C(I.a, I.ty, env))
        elif op == 'fneg':
            a = C(I.a, I.ty, env)
            env[I.dst] = [s.fneg(x, I.ty.el.w) for x in a] if isinstance(I.ty, VecTy) else s.fneg(a, I.ty.w)
        elif op == 'extractvalue':
            a = C(I.a, I.ty, env)
            for i in I.idxs: a = a[i]
            env[I.dst] = a
        elif op == 'insertvalue':
            a = C(I.a, I.ty, env); b = C(I.b, I.ety, env)
            def ins(agg, idxs):
                agg = list(agg)
                if len(idxs) == 1: agg[idxs[0]] = b
                else: agg[idxs[0]] = ins(agg[idxs[0]], idxs[1:])
                return agg
            env[I.dst] = ins(a, I.idxs)
        elif op == 'switch':
            v = C(I.a, I.ty, env); v = s.as_int(v, I.ty.w)
            if isinstance(v, int):
                for cv, lab in I.cases:
                    if mask(cv, I.ty.w) == v: return ('br', lab)
                return ('br', I.default)
            V = bv(v, I.ty.w)
            conds = [V == mask(cv, I.ty.w) for cv, _ in I.cases]
            conds.append(z3.And([V != mask(cv, I.ty.w) for cv, _ in I.cases]))
            k = s.choose(conds)
            return ('br', I.cases[k][1] if k < len(I.cases) else I.default)
        elif op == 'freeze':
            a = C(I.a, I.ty, env)
            env[I.dst] = a
        elif op == 'unreachable':
            raise PathEnd('unreachable', f.name)
        elif op == 'landingpad':
            raise EncodingError('landingpad reached')
        elif op == 'resume':
            raise PathEnd('raised', 'resume')
        elif op == 'fence':
            pass
        else:
            raise EncodingError('unhandled ' + I.line[:120])
        return None

    def select1(s, c, a, b, w=None):
        if isinstance(c, Undef): return UNDEF
        c = to_bool(c)
        if isinstance(c, int): return a if c else b
        return s.ite(c, a, b, w)

    def fbin(s, op, a, b, w):
        if isinstance(a, Undef) or isinstance(b, Undef): return UNDEF
        return s.dom.bin(op, s.as_float(a, w), s.as_float(b, w))

    def fneg(s, a, w):
        if isinstance(a, Undef): return UNDEF
        return s.dom.neg(s.as_float(a, w))

    def fcmp(s, pred, a, b, w):
        if isinstance(a, Undef) or isinstance(b, Undef): return UNDEF
        return s.dom.cmp(pred, s.as_float(a, w), s.as_float(b, w))

    # ------------------------------------------------------------ calls
    def call(s, I, env):
        fn = I.fn
        if fn == 'asm':
            txt = I.asm[0]
            if txt in ('""',): return None
            raise EncodingError('inline asm ' + txt)
        if fn[0] == '%':
            tgt = env[fn]
            if not isinstance(tgt, FnPtr): raise EncodingError('indirect call')
            name = tgt.name
        else:
            name = fn[1:] if not fn.startswith('@"') else fn[2:-1]
        args = [(t, s.const(v, t, env) if v is not None else None) for t, v in I.args]
        if name.startswith('llvm.') or name not in s.mod.funcs:
            r = intrin.call(s, name, I, args)
        else:
            r = s.run_function(s.mod.funcs[name], [a for _, a in args])
        if I.dst: env[I.dst] = r
        return r


class CondVal:
    """cell written only under condition c (previous contents uninitialised)"""
    __slots__ = ('c', 'v')
    def __init__(s, c, v): s.c = c; s.v = v
    def __repr__(s): return f'CondVal({s.c},{s.v})'


def norm_pack(p):
    # flatten nested packs, merge adjacent lazy slices of one base, merge concrete ints
    parts = []
    for v, n in p.parts:
        if isinstance(v, Pack): parts.extend(v.parts)
        else: parts.append((v, n))
    if any(isinstance(v, Sl) for v, _ in parts):
        out = []
        for v, n in parts:
            if out and isinstance(v, Sl) and isinstance(out[-1][0], Sl) and out[-1][0].key() == v.key() and out[-1][0].lo + out[-1][1] == v.lo:
                out[-1] = (out[-1][0], out[-1][1] + n)
            else: out.append((v, n))
        parts = [((v.base, n) if (isinstance(v, Sl) and v.lo == 0 and n == v.bb) else (v, n)) for v, n in out]
    if len(parts) == 1 and not isinstance(parts[0][0], Sl): return parts[0][0]
    if all(isinstance(v, int) for v, _ in parts):
        r = 0; sh = 0
        for v, n in parts: r |= mask(v, 8 * n) << sh; sh += 8 * n
        return r
    if all(isinstance(v, Undef) for v, _ in parts): return UNDEF
    return Pack(parts)


def slice_val(v, csz, lo, n):
    """bytes [lo, lo+n) of a csz-byte cell value"""
    if lo == 0 and n == csz: return v
    if isinstance(v, Undef): return UNDEF
    if isinstance(v, int): return (v >> (8 * lo)) & ((1 << (8 * n)) - 1)
    if isinstance(v, Pack):
        out = []; o = 0
        for pv, pn in v.parts:
            a = max(lo, o); b = min(lo + n, o + pn)
            if a < b:
                if isinstance(pv, Sl): out.append((Sl(pv.base, pv.bb, pv.lo + a - o), b - a))
                else: out.append((slice_val(pv, pn, a - o, b - a), b - a))
            o += pn
        return norm_pack(Pack(out))
    if isinstance(v, FV):
        if v.r is not None: raise EncodingError('partial read of a real-domain float')
        b = v.bits()
        if isinstance(b, int): return (b >> (8 * lo)) & ((1 << (8 * n)) - 1)
        return Pack([(Sl(v, csz, lo), n)])
    if isinstance(v, (Ptr, FnPtr)): raise EncodingError('partial read of a pointer')
    if isinstance(v, CondVal): raise EncodingError('partial read of conditionally initialised cell')
    return Pack([(Sl(v, csz, lo), n)])
