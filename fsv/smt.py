"""Discharging obligations: in-process z3 (python API) first, external solver binaries as portfolio."""
import z3, subprocess, time, os, re, tempfile
from fractions import Fraction

Z3_OLD = '/usr/bin/z3'        # 4.8.12 : better on QF_NRA with explicit logic
Z3_NEW = 'z3-new'             # 5.1.0
CVC5 = 'cvc5'

STATS = {'api': [0, 0.0], 'z3-4.8.12': [0, 0.0], 'z3-5.1': [0, 0.0], 'cvc5': [0, 0.0]}


def model_dict(m):
    d = {}
    for decl in m.decls():
        if decl.arity() != 0: continue
        v = m[decl]
        if z3.is_bv_value(v): d[decl.name()] = v.as_long()
        elif z3.is_int_value(v): d[decl.name()] = v.as_long()
        elif z3.is_rational_value(v): d[decl.name()] = str(v.as_fraction())
        elif z3.is_algebraic_value(v): d[decl.name()] = str(v.approx(20).as_fraction())
        elif z3.is_true(v) or z3.is_false(v): d[decl.name()] = bool(z3.is_true(v))
        else: d[decl.name()] = str(v)
    return d


def guarded_check(solver, limit_s, *assumptions):
    """plain check.  (A watchdog *thread* is unsafe: ctypes releases the GIL during z3 calls and Python may then free z3
    objects from the other thread -> heap corruption.)  Hangs are avoided by using the incremental default solver, which
    honours its timeout, for in-process queries and external solver processes with a hard kill for everything else."""
    try:
        return solver.check(*assumptions)
    except z3.Z3Exception:
        return z3.unknown


def check_api(assertions, timeout_s, logic=None):
    s = z3.SolverFor(logic) if logic else z3.Solver()
    s.set('timeout', int(timeout_s * 1000))
    for a in assertions: s.add(a)
    t = time.time(); r = guarded_check(s, timeout_s + 3); dt = time.time() - t
    STATS['api'][0] += 1; STATS['api'][1] += dt
    if r == z3.sat: return 'sat', model_dict(s.model()), dt
    if r == z3.unsat: return 'unsat', None, dt
    return 'unknown', None, dt


def to_smt2(assertions, logic=None):
    s = z3.Solver()
    for a in assertions: s.add(a)
    txt = s.to_smt2()
    txt = re.sub(r'\(set-info [^)]*\)\n?', '', txt)
    if logic: txt = f'(set-logic {logic})\n' + txt
    return txt


def run_cli(binary, txt, timeout_s, want_model=False, extra=()):
    with tempfile.NamedTemporaryFile('w', suffix='.smt2', delete=False, dir=os.environ.get('FSV_TMP', None)) as f:
        f.write(txt)
        if want_model: f.write('\n(get-model)\n')
        path = f.name
    name = {'/usr/bin/z3': 'z3-4.8.12', 'z3-new': 'z3-5.1', 'cvc5': 'cvc5'}[binary]
    t = time.time()
    try:
        if binary == CVC5: cmd = [binary, f'--tlimit={int(timeout_s * 1000)}'] + (['--produce-models'] if want_model else []) + list(extra) + [path]
        else: cmd = [binary, f'-T:{int(timeout_s) + 1}', f'-t:{int(timeout_s * 1000)}'] + list(extra) + [path]
        p = subprocess.run(cmd, capture_output=True, text=True, timeout=timeout_s + 5)
        out = p.stdout
    except subprocess.TimeoutExpired:
        out = 'timeout'
    finally:
        os.unlink(path)
    dt = time.time() - t
    STATS[name][0] += 1; STATS[name][1] += dt
    first = out.strip().split('\n')[0] if out.strip() else ''
    if '(error' in out and first not in ('sat', 'unsat'): return 'unknown', None, dt
    if '(error' in out and not want_model: return 'unknown', None, dt
    if first == 'unsat': return 'unsat', None, dt
    if first == 'sat': return 'sat', parse_model(out) if want_model else None, dt
    return 'unknown', None, dt


def parse_model(out):
    d = {}
    for m in re.finditer(r'\(define-fun ([^\s]+) \(\) (\(_ BitVec \d+\)|Real|Bool|Int)\s+([^\n]*?)\)\n', out):
        name, sort, val = m.group(1), m.group(2), m.group(3).strip()
        if sort.startswith('(_ BitVec'):
            if val.startswith('#x'): d[name] = int(val[2:], 16)
            elif val.startswith('#b'): d[name] = int(val[2:], 2)
        elif sort == 'Real':
            d[name] = val
        elif sort == 'Bool': d[name] = (val == 'true')
    return d


def prove(pc, hyp, goal, timeout_s=10, logic=None, portfolio=False, fresh=True, order_only=False, api_default=False):
    """returns (status, model, seconds, solver) ; status unsat = goal holds.
    In-process z3 first, external solver binaries (hard-killable) on unknown when portfolio=True.
    Tactic-based solvers (SolverFor) are used in-process only for the arithmetic logics; for BV/UF/FP queries some
    tactics ignore the timeout during preprocessing, so the incremental default solver is used there with a short cap."""
    assertions = list(pc) + list(hyp) + [z3.Not(goal)]
    if logic == 'QF_BV' and order_only:
        oa = order_abstract(assertions)
        if oa is not None:
            r, m, dt = check_api(oa, timeout_s, 'QF_LIA')
            if r == 'unsat': return r, None, dt, 'z3-5.1(api, signed-order abstraction to QF_LIA)'
            if r == 'sat':
                m = {k[2:]: v for k, v in (m or {}).items() if k.startswith('i!')}
                return r, m, dt, 'z3-5.1(api, order abstraction)'
    arith = (logic or '').endswith(('NRA', 'LRA', 'LIA'))
    rest = []
    if arith:
        # cone of influence: path-condition conjuncts over variables disjoint from the goal's (e.g. the bit-vector mask/index
        # decisions of the path next to a real-arithmetic goal) are checked separately - a mixed BV+NRA query comes back unknown
        rel, rest = _slice(list(pc) + list(hyp), goal)
        if rest: assertions = rel + [z3.Not(goal)]
    try:
        if arith: r, m, dt = check_api(assertions, min(timeout_s, 5.0) if portfolio else timeout_s, None if api_default else logic)
        elif logic == 'QF_BV': r, m, dt = check_api(assertions, min(timeout_s, 6.0), logic)
        else: r, m, dt = check_api(assertions, min(timeout_s, 4.0), None)
    except z3.Z3Exception:
        r, m, dt = 'unknown', None, 0.0
    if r == 'sat' and rest:
        r2, m2, dt2 = check_api(rest, 10); dt += dt2
        if r2 == 'sat': m = dict(m2 or {}, **(m or {}))
        elif r2 == 'unsat': return 'unsat', None, dt, 'z3-5.1(api, path condition infeasible)'
        else: return 'unknown', None, dt, 'z3-5.1(api)'
    if r != 'unknown' or not portfolio: return r, m, dt, 'z3-5.1(api)'
    tot = dt
    txt = to_smt2(assertions, logic)
    order = [Z3_OLD, Z3_NEW, CVC5] if arith else [Z3_NEW, CVC5, Z3_OLD]
    for binary in order:
        if binary == CVC5 and ('fp.to_ieee_bv' in txt): continue
        r, m, dt = run_cli(binary, txt, timeout_s)
        tot += dt
        if r == 'sat':
            r2, m, dt2 = run_cli(binary, txt, timeout_s, want_model=True); tot += dt2
        if r != 'unknown': return r, m, tot, binary
    return 'unknown', None, tot, 'portfolio'


def _uvars(e, memo):
    """names of the uninterpreted constants in e"""
    k = e.get_id()
    if k in memo and memo[k][0].eq(e): return memo[k][1]
    out = set(); stack = [e]; seen = set()
    while stack:
        x = stack.pop(); i = x.get_id()
        if i in seen: continue
        seen.add(i)
        if z3.is_const(x):
            if x.decl().kind() == z3.Z3_OP_UNINTERPRETED: out.add(x.decl().name())
        elif z3.is_app(x): stack.extend(x.children())
        elif z3.is_quantifier(x): stack.append(x.body())
    memo[k] = (e, out)      # keep e alive: ids are recycled
    return out


_UV_MEMO = {}


def _slice(hyps, goal):
    if z3.is_false(goal) or z3.is_true(goal): return list(hyps), []
    memo = _UV_MEMO       # hypotheses are shared by all obligations of a path: their variable sets are computed once
    if len(memo) > 50000: memo.clear()
    cone = set(_uvars(goal, memo)); items = [(h, _uvars(h, memo)) for h in hyps]
    rel = []; changed = True; pending = items
    while changed:
        changed = False; nxt = []
        for h, vs in pending:
            if not vs or vs & cone:
                rel.append(h)
                if not vs <= cone: cone |= vs; changed = True
            else: nxt.append((h, vs))
        pending = nxt
    return rel, [h for h, _ in pending]


# ---- signed-order abstraction: a BV formula built only from variables, constants, ite, = and signed comparisons is
#      equisatisfiable with the same formula over integers confined to the signed range (order embedding), which the
#      arithmetic solver decides by difference reasoning instead of bit-blasting comparator networks.
_ORD = {z3.Z3_OP_SLEQ: lambda a, b: a <= b, z3.Z3_OP_SLT: lambda a, b: a < b, z3.Z3_OP_SGEQ: lambda a, b: a >= b, z3.Z3_OP_SGT: lambda a, b: a > b}


def order_abstract(assertions):
    cache = {}; ranges = {}

    def tr(e):
        k = e.get_id()
        if k in cache: return cache[k]
        r = tr0(e); cache[k] = r; return r

    def tr0(e):
        if z3.is_bv(e):
            w = e.size()
            if z3.is_bv_value(e):
                v = e.as_long(); return z3.IntVal(v - (1 << w) if v >> (w - 1) else v)
            if z3.is_const(e) and e.decl().kind() == z3.Z3_OP_UNINTERPRETED:
                x = z3.Int('i!' + e.decl().name()); ranges[e.decl().name()] = z3.And(x >= -(1 << (w - 1)), x < (1 << (w - 1))); return x
            if z3.is_app_of(e, z3.Z3_OP_ITE): return z3.If(tr(e.arg(0)), tr(e.arg(1)), tr(e.arg(2)))
            raise ValueError('not order-only: ' + e.decl().name())
        if z3.is_bool(e):
            if z3.is_true(e) or z3.is_false(e): return e
            kd = e.decl().kind()
            if kd in _ORD: return _ORD[kd](tr(e.arg(0)), tr(e.arg(1)))
            if kd == z3.Z3_OP_EQ or kd == z3.Z3_OP_DISTINCT:
                a, b = tr(e.arg(0)), tr(e.arg(1)); return (a == b) if kd == z3.Z3_OP_EQ else (a != b)
            if kd == z3.Z3_OP_AND: return z3.And([tr(c) for c in e.children()])
            if kd == z3.Z3_OP_OR: return z3.Or([tr(c) for c in e.children()])
            if kd == z3.Z3_OP_NOT: return z3.Not(tr(e.arg(0)))
            if kd == z3.Z3_OP_ITE: return z3.If(tr(e.arg(0)), tr(e.arg(1)), tr(e.arg(2)))
            if kd == z3.Z3_OP_IMPLIES: return z3.Implies(tr(e.arg(0)), tr(e.arg(1)))
            raise ValueError('not order-only: ' + e.decl().name())
        raise ValueError('sort')
    try:
        out = [tr(a) for a in assertions]
    except ValueError:
        return None
    return out + list(ranges.values())
