"""Compile generated harness TUs to LLVM IR (for the encoder) and to native objects (validation / replay)."""
import os, subprocess, hashlib, shutil, tempfile, json, time
from . import proc

FASTOR_ROOT = os.environ.get('FASTOR_ROOT', '/repo')
VERIF = os.path.dirname(os.path.dirname(os.path.abspath(__file__)))
WORK = os.environ.get('FSV_WORK', os.path.join(VERIF, '_work'))

ISA = {
    'scalar': ['-DFASTOR_DONT_VECTORISE'],
    'sse2': ['-msse2'],
    'sse4': ['-msse4.2'],
    'avx': ['-mavx'],
    'avx2': ['-mavx2', '-mfma'],
    'avx512': ['-mavx512f', '-mavx512vl', '-mavx512dq', '-mavx512bw', '-mavx512cd', '-mfma'],
}
MAIN_ISAS = ['sse2', 'avx2', 'avx512']
ALL_ISAS = ['scalar', 'sse2', 'sse4', 'avx', 'avx2', 'avx512']


class Cfg:
    def __init__(s, isa='avx2', std=17, opt='O2', macros=()):
        s.isa = isa; s.std = std; s.opt = opt; s.macros = tuple(macros)

    def key(s): return f'{s.isa}-c{s.std}-{s.opt}' + ''.join('-' + m.replace('=', '') for m in s.macros)
    def __repr__(s): return s.key()

    def flags(s):
        f = [f'-std=c++{s.std}', '-' + s.opt, '-DNDEBUG', '-ffp-contract=off', '-fno-math-errno'] + ISA[s.isa] + ['-D' + m for m in s.macros]
        f += ['-I' + FASTOR_ROOT, '-I' + os.path.join(VERIF, 'fsv', 'include')]
        return f

    def ir_flags(s):
        return s.flags() + ['-fno-vectorize', '-fno-slp-vectorize', '-fno-unroll-loops', '-fno-exceptions' if False else '-fexceptions']


def workdir(tag):
    d = os.path.join(WORK, tag); os.makedirs(d, exist_ok=True); return d


def compile_ir(src_path, cfg, out_path, timeout=600):
    cmd = ['clang++-14'] + cfg.ir_flags() + ['-ferror-limit=0', '-S', '-emit-llvm', '-o', out_path, src_path]
    t = time.time()
    p = proc.run(cmd, timeout=timeout)
    return p.returncode == 0, p.stderr, cmd, time.time() - t


def compile_native(src_path, cfg, out_path, compiler='clang++-14', extra=(), timeout=600):
    cmd = [compiler] + cfg.flags() + list(extra) + ['-o', out_path, src_path]
    p = proc.run(cmd, timeout=timeout)
    return p.returncode == 0, p.stderr, cmd


def cleanup():
    shutil.rmtree(WORK, ignore_errors=True)
