"""Value domain of the symbolic interpreter.

ints      : python int (concrete, masked to width) | z3 BitVecRef | z3 BoolRef (i1 only)
floats    : FV  (bits domain: IEEE bit-precise via z3 FP; real domain: exact real + rounding depth)
pointers  : Ptr(region, off)       off: python int | z3 BV64
vectors / aggregates : python lists
UNDEF     : uninitialised / undef / poison
Pack      : an integer assembled from several typed cells (clang merges adjacent loads)
"""
import z3, struct
from fractions import Fraction


class EncodingError(Exception):
    """the IR does something the encoder does not model -> harness inconclusive"""


class Undef:
    def __repr__(s): return 'UNDEF'


UNDEF = Undef()


def isc(x): return isinstance(x, int)
def mask(x, w): return x & ((1 << w) - 1)
def sgn(x, w):
    x = mask(x, w); return x - (1 << w) if x >> (w - 1) else x


def bv(x, w):
    if isinstance(x, int): return z3.BitVecVal(x, w)
    if z3.is_bool(x): return z3.If(x, z3.BitVecVal(1, w), z3.BitVecVal(0, w))
    return x


def simp(t):
    t = z3.simplify(t)
    if z3.is_bv_value(t): return t.as_long()
    if z3.is_true(t): return 1
    if z3.is_false(t): return 0
    return t


def to_bool(c):
    """i1 value -> z3 Bool or python int"""
    if isinstance(c, int): return c & 1
    if z3.is_bool(c): return c
    if z3.is_bv(c): return simp(c == z3.BitVecVal(1, c.size())) if c.size() == 1 else simp(z3.Extract(0, 0, c) == 1)
    raise EncodingError('to_bool ' + repr(c))


FSORT = {32: z3.Float32(), 64: z3.Float64(), 16: z3.Float16()}
RNE = z3.RNE()


def f2bits(x, w):
    if w == 32: return struct.unpack('<I', struct.pack('<f', x))[0]
    return struct.unpack('<Q', struct.pack('<d', x))[0]


def bits2f(b, w):
    if w == 32: return struct.unpack('<f', struct.pack('<I', b))[0]
    return struct.unpack('<d', struct.pack('<Q', b))[0]


def dbits_to(bits64, w):
    """LLVM prints float constants as double bit patterns"""
    if w == 64: return bits64
    d = struct.unpack('<d', struct.pack('<Q', bits64))[0]
    if w == 32:
        return struct.unpack('<I', struct.pack('<f', d))[0]
    raise EncodingError('fp width')


class FV:
    """floating-point value.  bits domain: bv (int|BV) and/or fp (z3 FP).  real domain: r (z3 Real) + depth"""
    __slots__ = ('w', 'bv', 'fp', 'r', 'depth', 'den')

    def __init__(s, w, bv=None, fp=None, r=None, depth=0, den=None):
        s.w = w; s.bv = bv; s.fp = fp; s.r = r; s.depth = depth; s.den = den

    def __repr__(s):
        if s.r is not None: return f'FV{s.w}(r={s.r},d={s.depth})'
        return f'FV{s.w}({s.bv if s.bv is not None else s.fp})'

    # bits-domain accessors
    def bits(s):
        if s.bv is None:
            if s.r is not None: raise EncodingError('bits of a real-domain float')
            s.bv = simp(z3.fpToIEEEBV(s.fp))
        return s.bv

    def asfp(s):
        if s.fp is None:
            if s.r is not None: raise EncodingError('fp of a real-domain float')
            b = s.bv
            s.fp = z3.fpBVToFP(bv(b, s.w), FSORT[s.w])
            if isinstance(b, int): s.fp = z3.simplify(s.fp)
        return s.fp


class Region:
    __slots__ = ('name', 'size', 'align', 'cells', 'kind', 'alive', 'writable', 'wlog', 'init')

    def __init__(s, name, size, align, kind='arg', writable=True):
        s.name = name; s.size = size; s.align = align; s.cells = {}; s.kind = kind; s.alive = True
        s.writable = writable; s.wlog = []; s.init = None

    def __repr__(s): return f'<{s.name}:{s.size}>'


class Ptr:
    __slots__ = ('r', 'off')

    def __init__(s, r, off): s.r = r; s.off = off
    def __repr__(s): return f'&{s.r.name if s.r else "null"}+{s.off}'


class MuxPtr:
    """c ? a : b  for pointers into different objects"""
    __slots__ = ('c', 'a', 'b')
    def __init__(s, c, a, b): s.c = c; s.a = a; s.b = b
    def __repr__(s): return f'MuxPtr({s.a},{s.b})'


class FnPtr:
    def __init__(s, name): s.name = name


class Sl:
    """lazy byte slice [lo, lo+n) of a symbolic scalar `base` of `bb` bytes; lives only inside Pack parts.
    Kept lazy because z3's rewriter pushes extracts through add/mul, after which re-assembled halves no longer fold."""
    __slots__ = ('base', 'bb', 'lo')

    def __init__(s, base, bb, lo): s.base = base; s.bb = bb; s.lo = lo
    def __repr__(s): return f'Sl({s.base},{s.lo})'

    def key(s):
        b = s.base
        return b.get_id() if hasattr(b, 'get_id') else id(b)

    def bits(s, n):
        b = s.base.bits() if isinstance(s.base, FV) else s.base
        if isinstance(b, int): return (b >> (8 * s.lo)) & ((1 << (8 * n)) - 1)
        if z3.is_bool(b): b = bv(b, 8 * s.bb)
        return simp(z3.Extract(8 * (s.lo + n) - 1, 8 * s.lo, b))


class Pack:
    """integer made of parts [(value, nbytes)] low -> high"""
    __slots__ = ('parts',)

    def __init__(s, parts): s.parts = parts
    def nbytes(s): return sum(n for _, n in s.parts)
    def __repr__(s): return f'Pack{s.parts}'


def part_bits(v, nbytes):
    """bit-vector (python int or z3) of a cell value, or None if not expressible"""
    if isinstance(v, int): return v
    if isinstance(v, Sl): return v.bits(nbytes)
    if isinstance(v, FV):
        if v.r is not None: return None
        return v.bits()
    if isinstance(v, Undef): return None
    if isinstance(v, Pack): return pack_bits(v)
    if isinstance(v, Ptr): return None
    if z3.is_bool(v): return bv(v, 8 * nbytes)
    return v


def pack_bits(p):
    acc = None; sh = 0; conc = 0; allc = True; terms = []
    for v, n in p.parts:
        b = part_bits(v, n)
        if b is None: return None
        terms.append((b, n))
    # concat high..low
    if all(isinstance(b, int) for b, _ in terms):
        r = 0; sh = 0
        for b, n in terms: r |= mask(b, 8 * n) << sh; sh += 8 * n
        return r
    if len(terms) == 1: return terms[0][0]
    return simp(z3.Concat(*[bv(b, 8 * n) for b, n in reversed(terms)]))
