"""Models of LLVM/x86 intrinsics and environment stubs (the trusted table; cross-checked by native validation)."""
import re, z3
from .ir import *
from .vals import *

LIBM1 = {'sin', 'cos', 'tan', 'asin', 'acos', 'atan', 'sinh', 'cosh', 'tanh', 'asinh', 'acosh', 'atanh', 'exp', 'exp2',
         'expm1', 'log', 'log2', 'log10', 'log1p', 'cbrt', 'erf', 'erfc', 'tgamma', 'lgamma', 'exp10'}
LIBM2 = {'pow', 'atan2', 'hypot', 'fmod'}
ALLOC = {'_Znwm', '_Znam', 'malloc', 'calloc', 'realloc', 'posix_memalign', 'aligned_alloc', '_ZnwmSt11align_val_t', '_ZnamSt11align_val_t', 'memalign'}


def vmap(f, *xs):
    if isinstance(xs[0], list): return [f(*t) for t in zip(*xs)]
    return f(*xs)


def call(s, name, I, args):
    from .sym import PathEnd, MemViolation, sizeof
    A = [a for _, a in args]; T = [t for t, _ in args]
    st = s.st
    if name.startswith('llvm.'):
        st.intrinsics.add(re.sub(r'\.(v\d+)?[fip]\d+.*$', '', name[5:]))
        if name.startswith(('llvm.lifetime.start',)):
            p = A[1]
            if isinstance(p, Ptr) and p.r is not None and p.r.kind == 'alloca':
                p.r.alive = True
            return None
        if name.startswith('llvm.lifetime.end'):
            p = A[1]
            if isinstance(p, Ptr) and p.r is not None and p.r.kind == 'alloca':
                p.r.alive = False; p.r.cells.clear()
            return None
        if name.startswith(('llvm.experimental.noalias', 'llvm.dbg.', 'llvm.invariant.', 'llvm.prefetch', 'llvm.donothing')): return None
        if name.startswith('llvm.assume'):
            c = to_bool(A[0]) if not isinstance(A[0], Undef) else 1
            if not isinstance(c, int): s.assume(c); s.notes.append('llvm.assume')
            return None
        if name.startswith(('llvm.memcpy', 'llvm.memmove')):
            d, sr, n = A[0], A[1], A[2]
            n = s.concretize(n) if not isinstance(n, int) else n
            if not isinstance(n, int): raise EncodingError('symbolic memcpy length')
            if n == 0: return None
            if not (isinstance(d.off, int) and isinstance(sr.off, int)):
                return sym_memcpy(s, d, sr, n)
            s._chk(sr.r, sr.off, n, 1, 'memcpy read', False); s._chk(d.r, d.off, n, 1, 'memcpy write', True)
            # gather source cells (split at range ends)
            items = []; o = sr.off; end = sr.off + n
            while o < end:
                hit = s.find_cell(sr.r, o)
                if hit is None:
                    nx = o + 1
                    while nx < end and nx not in sr.r.cells: nx += 1
                    items.append((o - sr.off, None, nx - o)); o = nx; continue
                co, (cv, csz) = hit; lo = o - co; m = min(co + csz, end) - o
                from .sym import slice_val
                items.append((o - sr.off, cv if (lo == 0 and m == csz) else slice_val(cv, csz, lo, m), m)); o += m
            s.clear_range(d.r, d.off, n)
            for rel, v, m in items:
                if v is not None: d.r.cells[d.off + rel] = (v, m)
            d.r.wlog.append((d.off, n))
            return None
        if name.startswith('llvm.memset'):
            d, val, n = A[0], A[1], A[2]
            if not isinstance(n, int): n = s.concretize(n)
            if not (isinstance(n, int) and isinstance(d.off, int)): raise EncodingError('symbolic memset')
            if n == 0: return None
            s._chk(d.r, d.off, n, 1, 'memset', True)
            s.clear_range(d.r, d.off, n)
            for o in range(d.off, d.off + n): d.r.cells[o] = (val, 1)
            d.r.wlog.append((d.off, n))
            return None
        if name.startswith('llvm.fma.'):
            return vmap(lambda x, y, z: fma(s, x, y, z), *A)
        if name.startswith('llvm.fmuladd.'):
            if s.fma_fused: return vmap(lambda x, y, z: fma(s, x, y, z), *A)
            w = fw(T[0])
            return vmap(lambda x, y, z: s.fbin('fadd', s.fbin('fmul', x, y, w), z, w), *A)
        if name.startswith('llvm.sqrt.'): return vmap(lambda x: f1(s, 'sqrt', x, fw(T[0])), A[0])
        if name.startswith('llvm.fabs.'): return vmap(lambda x: f1(s, 'abs', x, fw(T[0])), A[0])
        m = re.match(r'llvm\.(floor|ceil|trunc|rint|nearbyint|round)\.', name)
        if m: return vmap(lambda x: UNDEF if isinstance(x, Undef) else s.dom.round(s.as_float(x, fw(T[0])), m.group(1)), A[0])
        m = re.match(r'llvm\.(minnum|maxnum)\.', name)
        if m:
            w = fw(T[0]); g = getattr(s.dom, m.group(1))
            return vmap(lambda x, y: UNDEF if isinstance(x, Undef) or isinstance(y, Undef) else g(s.as_float(x, w), s.as_float(y, w)), A[0], A[1])
        if name.startswith('llvm.copysign.'):
            w = fw(T[0]); return vmap(lambda x, y: s.dom.copysign(s.as_float(x, w), s.as_float(y, w)), A[0], A[1])
        m = re.match(r'llvm\.(sin|cos|exp|exp2|log|log2|log10|pow)\.', name)
        if m:
            w = fw(T[0]); nm = m.group(1)
            return vmap(lambda *xs: UNDEF if any(isinstance(x, Undef) for x in xs) else s.dom.libm(nm, [s.as_float(x, w) for x in xs]), *A)
        m = re.match(r'llvm\.(smax|smin|umax|umin)\.', name)
        if m:
            w = iw(T[0]); k = m.group(1)
            pred = {'smax': 'sgt', 'smin': 'slt', 'umax': 'ugt', 'umin': 'ult'}[k]
            return vmap(lambda x, y: s.select1(s.icmp(pred, x, y, w), x, y, w), A[0], A[1])
        if name.startswith('llvm.abs.'):
            w = iw(T[0])
            return vmap(lambda x: s.select1(s.icmp('slt', x, 0, w), s.binop('sub', 0, x, w), x, w), A[0])
        if name.startswith('llvm.masked.store'):
            v, p, al, m = A
            ety = T[0].el; es = sizeof(ety)
            for i, (l, mk) in enumerate(zip(v, m)):
                mk = to_bool(mk)
                if isinstance(mk, int):
                    if mk: s.store(Ptr(p.r, s.addoff(p.off, i * es)), l, ety, 1)
                else:
                    masked_store_lane(s, p, i, es, l, ety, mk)
            return None
        if name.startswith('llvm.masked.load'):
            p, al, m, pt = A
            vty = I.ty; es = sizeof(vty.el); out = []
            for i, mk in enumerate(m):
                mk = to_bool(mk)
                if isinstance(mk, int):
                    out.append(s.load(Ptr(p.r, s.addoff(p.off, i * es)), vty.el, 1) if mk else pt[i])
                else:
                    out.append(masked_load_lane(s, p, i, es, vty.el, mk, pt[i]))
            return out
        if name.startswith('llvm.masked.gather'):
            ps, al, m, pt = A; vty = I.ty; out = []
            for i, mk in enumerate(m):
                mk = to_bool(mk)
                if isinstance(mk, int): out.append(s.load(ps[i], vty.el, 1) if mk else pt[i])
                else: raise EncodingError('symbolic gather mask')
            return out
        if name.startswith('llvm.masked.scatter'):
            v, ps, al, m = A
            for i, mk in enumerate(m):
                mk = to_bool(mk)
                if isinstance(mk, int):
                    if mk: s.store(ps[i], v[i], T[0].el, 1)
                else: raise EncodingError('symbolic scatter mask')
            return None
        if name.startswith('llvm.vector.reduce.'):
            k = name.split('.')[3]; v = A[-1]; w = iw(T[-1]) if not isinstance(T[-1].el, FpTy) else fw(T[-1])
            if k in ('add', 'mul', 'and', 'or', 'xor'):
                acc = v[0]
                for x in v[1:]: acc = s.binop(k, acc, x, w)
                return acc
            if k in ('smax', 'smin', 'umax', 'umin'):
                pred = {'smax': 'sgt', 'smin': 'slt', 'umax': 'ugt', 'umin': 'ult'}[k]; acc = v[0]
                for x in v[1:]: acc = s.select1(s.icmp(pred, acc, x, w), acc, x, w)
                return acc
            if k in ('fadd', 'fmul'):
                acc = A[0]
                for x in v: acc = s.fbin(k, acc, x, w)
                return acc
            raise EncodingError(name)
        if name.startswith('llvm.x86.'): return x86(s, name, I, A, T)
        if name.startswith('llvm.is.constant'): return 0
        if name.startswith('llvm.expect'): return A[0]
        if name.startswith('llvm.objectsize'): return mask(-1, I.ty.w)
        if name.startswith('llvm.trap'): raise PathEnd('trap')
        if name.startswith(('llvm.ctpop', 'llvm.ctlz', 'llvm.cttz', 'llvm.bswap', 'llvm.fshl', 'llvm.fshr', 'llvm.usub.sat', 'llvm.uadd.sat', 'llvm.sadd', 'llvm.ssub', 'llvm.umul', 'llvm.smul')):
            return bitmanip(s, name, I, A, T)
        if name.startswith('llvm.stacksave'): return Ptr(None, 0)
        if name.startswith('llvm.stackrestore'): return None
        raise EncodingError('intrinsic ' + name)
    st.stubs.add(name)
    # ---- libm
    base = name
    w = None
    if isinstance(I.ty, FpTy):
        w = I.ty.w
        b = name[:-1] if (w == 32 and name.endswith('f')) else name
        if b in ('sqrt',): return f1(s, 'sqrt', A[0], w)
        if b in ('fabs',): return f1(s, 'abs', A[0], w)
        if b in ('floor', 'ceil', 'trunc', 'rint', 'nearbyint', 'round'): return s.dom.round(s.as_float(A[0], w), b)
        if b in LIBM1 or b in LIBM2: return s.dom.libm(b, [s.as_float(x, w) for x in A])
        if b in ('fmin', 'fmax'): return (s.dom.minnum if b == 'fmin' else s.dom.maxnum)(s.as_float(A[0], w), s.as_float(A[1], w))
        if b == 'fma': return fma(s, *A)
        if b == 'copysign': return s.dom.copysign(s.as_float(A[0], w), s.as_float(A[1], w))
    # ---- complex runtime (textbook formulas; Inf/NaN recovery outside the claim)
    m = re.fullmatch(r'__(mul|div)([sd])c3', name)
    if m:
        w = 32 if m.group(2) == 's' else 64
        a, b, c, d = [s.as_float(x, w) for x in A[:4]]
        D = s.dom; B = lambda op, x, y: D.bin(op, x, y)
        if m.group(1) == 'mul':
            re_ = B('fsub', B('fmul', a, c), B('fmul', b, d)); im = B('fadd', B('fmul', a, d), B('fmul', b, c))
        else:
            den = B('fadd', B('fmul', c, c), B('fmul', d, d))
            re_ = B('fdiv', B('fadd', B('fmul', a, c), B('fmul', b, d)), den)
            im = B('fdiv', B('fsub', B('fmul', b, c), B('fmul', a, d)), den)
        if isinstance(I.ty, VecTy): return [re_, im]
        return [re_, im]
    # ---- exceptions
    if name == '__cxa_allocate_exception':
        r = s.new_region('exception', A[0] if isinstance(A[0], int) else 64, 16, 'exception'); return Ptr(r, 0)
    if name in ('_ZNSt13runtime_errorC1EPKc', '_ZNSt13runtime_errorC2EPKc', '_ZNSt11logic_errorC1EPKc', '_ZNSt12length_errorC1EPKc', '_ZNSt12out_of_rangeC1EPKc'):
        return None
    if name == '__cxa_throw': raise PathEnd('raised', 'throw')
    if name in ('__cxa_free_exception', '__cxa_begin_catch', '__cxa_end_catch', '__cxa_guard_release', '__cxa_guard_abort', '__cxa_atexit'): return None
    if name == '__cxa_guard_acquire': return 1
    if name in ('abort', 'exit', '_exit', '__assert_fail', '_ZSt9terminatev', '__cxa_pure_virtual', '_ZSt20__throw_length_errorPKc', '_ZSt17__throw_bad_allocv', '_ZSt24__throw_out_of_range_fmtPKcz'):
        raise PathEnd('abort', name)
    # ---- heap (never stubbed away: recorded, then modelled so that exempt operations can proceed)
    if name in ALLOC:
        n = A[0] if name not in ('calloc', 'posix_memalign', 'aligned_alloc', 'memalign') else None
        if name == 'calloc': n = s.binop('mul', A[0], A[1], 64)
        if name in ('aligned_alloc', 'memalign'): n = A[1]
        s.heap_calls.append(name)
        if name == 'posix_memalign': raise EncodingError('posix_memalign')
        if not isinstance(n, int): raise EncodingError('symbolic allocation size')
        r = s.new_region('heap', n, 16, 'heap')
        if name == 'calloc':
            for o in range(n): r.cells[o] = (0, 1)
        return Ptr(r, 0)
    if name in ('_ZdlPv', '_ZdaPv', 'free', '_ZdlPvm', '_ZdaPvm', '_ZdlPvSt11align_val_t'):
        p = A[0]
        if isinstance(p, Ptr) and p.r is not None: p.r.alive = False
        return None
    if name in ('rand',):
        s.dom.cnt += 1; return z3.BitVec(f'rand!{s.dom.cnt}', 32)
    if name == 'memcmp' or name == 'bcmp':
        raise EncodingError('memcmp')
    if name == 'fsv_assume':
        c = A[0]
        c = s.icmp('ne', c, 0, iw(T[0]))
        s.assume(c if not isinstance(c, int) else c); return None
    raise EncodingError('call to unknown external ' + name)


def sym_memcpy(s, d, sr, n):
    """memcpy with a symbolic source and/or destination offset: element-granular conditional copy over the feasible offsets"""
    from .sym import slice_val
    dvals = s.sym_offsets(d.r, d.off, n, 1, 'memcpy write', True) if not isinstance(d.off, int) else [d.off]
    svals = s.sym_offsets(sr.r, sr.off, n, 1, 'memcpy read', False) if not isinstance(sr.off, int) else [sr.off]
    if isinstance(d.off, int): s._chk(d.r, d.off, n, 1, 'memcpy write', True)
    if isinstance(sr.off, int): s._chk(sr.r, sr.off, n, 1, 'memcpy read', False)
    # granularity: the cell size found at the first source offset (all our buffers are homogeneous)
    c0 = s.find_cell(sr.r, svals[0])
    g = c0[1][1] if c0 else 1
    if n % g: g = 1
    # snapshot of the source values per feasible source offset
    def src_val(k):
        res = None
        for sv in reversed(svals):
            v = s.load_raw(sr.r, sv + k, g)
            res = v if res is None else s.ite(bv(sr.off, 64) == sv, v, res, 8 * g)
        return res
    vals = [src_val(k) for k in range(0, n, g)]
    for dv in dvals:
        for i, k in enumerate(range(0, n, g)):
            if len(dvals) == 1: s.store_raw(d.r, dv + k, vals[i], g)
            else:
                old = s.load_raw(d.r, dv + k, g)
                if isinstance(old, Undef): raise EncodingError('conditional memcpy into uninitialised memory')
                s.store_raw(d.r, dv + k, s.ite(bv(d.off, 64) == dv, vals[i], old, 8 * g), g)
        d.r.wlog.append((dv, n))
    return None


def fw(t): return t.el.w if isinstance(t, VecTy) else t.w
def iw(t): return t.el.w if isinstance(t, VecTy) else t.w


def fma(s, x, y, z):
    if isinstance(x, Undef) or isinstance(y, Undef) or isinstance(z, Undef): return UNDEF
    w = x.w if isinstance(x, FV) else (y.w if isinstance(y, FV) else z.w)
    return s.dom.fma(s.as_float(x, w), s.as_float(y, w), s.as_float(z, w))


def f1(s, k, x, w):
    if isinstance(x, Undef): return UNDEF
    return getattr(s.dom, k)(s.as_float(x, w))


def masked_store_lane(s, p, i, es, l, ety, mk):
    """store lane under symbolic mask bit: access happens only if the bit can be set"""
    from .sym import CondVal
    if not s.feasible(mk): return
    q = Ptr(p.r, s.addoff(p.off, i * es))
    if not isinstance(q.off, int): raise EncodingError('symbolic mask and symbolic address')
    # bounds matter only when the lane is enabled
    saved = len(s.viol)
    s.solver.push(); s.solver.add(mk)
    try:
        s._chk(q.r, q.off, es, 1, f'masked store lane {i}', True)
    finally:
        s.solver.pop()
    old = s.load_raw(q.r, q.off, es)
    if isinstance(old, Undef): new = CondVal(mk, l)
    elif isinstance(old, CondVal): new = CondVal(z3.Or(mk, old.c), s.ite(mk, l, old.v))
    else: new = s.ite(mk, l, s.coerce(old, ety))
    s.store_raw(q.r, q.off, new, es); q.r.wlog.append((q.off, es))


def masked_load_lane(s, p, i, es, ety, mk, passthru):
    if not s.feasible(mk): return passthru
    q = Ptr(p.r, s.addoff(p.off, i * es))
    if not isinstance(q.off, int): raise EncodingError('symbolic mask and symbolic address')
    s._chk(q.r, q.off, es, 1, f'masked load lane {i}', False)
    v = s.coerce(s.load_raw(q.r, q.off, es), ety)
    return s.ite(mk, v, passthru)


def x86(s, name, I, A, T):
    n = name[len('llvm.x86.'):]
    D = s.dom
    m = re.fullmatch(r'(sse|sse2|avx|avx512)\.(min|max)\.(ps|pd|ss|sd)(\.256|\.512)?', n)
    if m:
        w = fw(T[0]); pr = 'olt' if m.group(2) == 'min' else 'ogt'
        f = lambda x, y: UNDEF if isinstance(x, Undef) or isinstance(y, Undef) else s.select1(s.fcmp(pr, x, y, w), s.as_float(x, w), s.as_float(y, w))
        if m.group(3) in ('ss', 'sd'): return [f(A[0][0], A[1][0])] + list(A[0][1:])
        return [f(x, y) for x, y in zip(A[0], A[1])]
    m = re.fullmatch(r'(sse3|avx)\.(hadd|hsub)\.(ps|pd)(\.256)?', n)
    if m:
        w = fw(T[0]); a, b = A[0], A[1]; op = 'fadd' if m.group(2) == 'hadd' else 'fsub'
        lanes = 16 // (w // 8)   # per 128-bit lane
        out = []
        for base in range(0, len(a), lanes):
            for src in (a, b):
                for k in range(0, lanes, 2): out.append(s.fbin(op, src[base + k], src[base + k + 1], w))
        return out
    m = re.fullmatch(r'(sse41\.dpps|sse41\.dppd|avx\.dp\.ps\.256)', n)
    if m:
        w = fw(T[0]); a, b, imm = A
        lanes = 16 // (w // 8); out = []
        for base in range(0, len(a), lanes):
            prods = []
            for k in range(lanes):
                if (imm >> (4 + k)) & 1: prods.append(s.fbin('fmul', a[base + k], b[base + k], w))
                else: prods.append(D.const(0, w))
            if lanes == 4:
                sm = s.fbin('fadd', s.fbin('fadd', prods[0], prods[1], w), s.fbin('fadd', prods[2], prods[3], w), w)
            else:
                sm = s.fbin('fadd', prods[0], prods[1], w)
            for k in range(lanes): out.append(sm if (imm >> k) & 1 else D.const(0, w))
        return out
    m = re.fullmatch(r'(avx|sse41)\.round\.(ps|pd|ss|sd)(\.256)?', n)
    if m:
        imm = A[-1] & 7 if isinstance(A[-1], int) else None
        mode = {0: 'rint', 1: 'floor', 2: 'ceil', 3: 'trunc', 4: 'rint'}.get(imm)
        if mode is None: raise EncodingError('round imm')
        w = fw(T[0]); return [D.round(s.as_float(x, w), mode) for x in A[0]]
    m = re.fullmatch(r'avx512\.permvar\.(\w+)\.(\d+)', n) or re.fullmatch(r'avx2\.perm(ps|d)', n)
    if m:
        a, idx = A[0], A[1]; nn = len(a)
        if not all(isinstance(i, int) for i in idx): raise EncodingError('symbolic permvar index')
        return [a[i % nn] for i in idx]
    m = re.fullmatch(r'avx512\.vpermi2var\.(\w+)\.(\d+)', n)
    if m:
        a, idx, b = A[0], A[1], A[2]; nn = len(a); ab = a + b
        if not all(isinstance(i, int) for i in idx): raise EncodingError('symbolic vpermi2var index')
        return [ab[i % (2 * nn)] for i in idx]
    m = re.fullmatch(r'(avx|avx2)\.maskload\.(ps|pd|d|q)(\.256)?', n)
    if m:
        p, msk = A; vty = I.ty; es = sizeof_el(vty); out = []
        zero = D.const(0, vty.el.w) if isinstance(vty.el, FpTy) else 0
        for i, mk in enumerate(msk):
            top = s.icmp('slt', mk, 0, iw(T[1]))
            top = to_bool(top)
            if isinstance(top, int):
                out.append(s.load(Ptr(p.r, s.addoff(p.off, i * es)), vty.el, 1) if top else zero)
            else: out.append(masked_load_lane(s, p, i, es, vty.el, top, zero))
        return out
    m = re.fullmatch(r'(avx|avx2)\.maskstore\.(ps|pd|d|q)(\.256)?', n)
    if m:
        p, msk, v = A; ety = T[2].el; es = sizeof_el(T[2])
        for i, mk in enumerate(msk):
            top = to_bool(s.icmp('slt', mk, 0, iw(T[1])))
            if isinstance(top, int):
                if top: s.store(Ptr(p.r, s.addoff(p.off, i * es)), v[i], ety, 1)
            else: masked_store_lane(s, p, i, es, v[i], ety, top)
        return None
    m = re.fullmatch(r'(sse|avx|avx512)\.(rcp|rsqrt)(14)?\.(ps|ss|pd)(\.256|\.512|\.128)?', n)
    if m:
        w = fw(T[0]); k = m.group(2) + (m.group(3) or '')
        if m.group(4) == 'ss': return [D.libm('x86_' + k, [s.as_float(A[0][0], w)])] + list(A[0][1:])     # scalar form: upper lanes pass through
        return [D.libm('x86_' + k, [s.as_float(x, w)]) for x in A[0]]
    m = re.fullmatch(r'(sse2|avx2|avx512)\.pmadd\.wd.*', n)
    m = re.fullmatch(r'(sse2|avx2)\.(psll|psrl|psra)(i)?\.(w|d|q)', n)
    if m:
        w = iw(T[0]); cnt = A[1]
        if not isinstance(cnt, int): raise EncodingError('symbolic shift count')
        op = {'psll': 'shl', 'psrl': 'lshr', 'psra': 'ashr'}[m.group(2)]
        if cnt >= w:
            if op == 'ashr': cnt = w - 1
            else: return [0] * len(A[0])
        return [s.binop(op, x, cnt, w) for x in A[0]]
    m = re.fullmatch(r'(sse2|avx2|avx512)\.pmul(u)?\.dq(\.512)?', n)
    if m:
        a, b = A
        ext = 'zext' if m.group(2) else 'sext'
        return [s.binop('mul', s.cast(ext, s.cast('trunc', x, I64, I32), I32, I64), s.cast(ext, s.cast('trunc', y, I64, I32), I32, I64), 64) for x, y in zip(a, b)]
    m = re.fullmatch(r'(sse|sse2|avx|avx2)\.movmsk\.(ps|pd)(\.256)?|(sse2|avx2)\.pmovmskb(\.128)?', n)
    if m:
        a = A[0]; w = fw(T[0]) if isinstance(T[0].el, FpTy) else iw(T[0])
        bits = []
        for x in a:
            xi = s.as_int(x, w)
            bits.append(to_bool(s.icmp('slt', xi, 0, w)))
        acc = 0
        for i, b in enumerate(bits):
            t = (b << i) if isinstance(b, int) else simp(z3.If(b, z3.BitVecVal(1 << i, 32), z3.BitVecVal(0, 32)))
            acc = s.binop('or', acc, t, 32)
        return acc
    m = re.fullmatch(r'(sse41|avx)\.(ptestz|ptestc|ptestnzc)(\.256)?|avx\.vtest[zc]\.(ps|pd)(\.256)?', n)
    if m and m.group(2):
        a, b = A; w = iw(T[0]); k = m.group(2)
        andz = [s.icmp('eq', s.binop('and', x, y, w), 0, w) for x, y in zip(a, b)]
        andnz = [s.icmp('eq', s.binop('and', s.binop('xor', x, mask(-1, w), w), y, w), 0, w) for x, y in zip(a, b)]
        def allb(xs):
            xs = [to_bool(x) for x in xs]
            if all(isinstance(x, int) for x in xs): return int(all(xs))
            return simp(z3.And([z3.BoolVal(bool(x)) if isinstance(x, int) else x for x in xs]))
        zf = allb(andz); cf = allb(andnz)
        r = zf if k == 'ptestz' else cf if k == 'ptestc' else None
        if r is None: raise EncodingError(n)
        return r if isinstance(r, int) else simp(z3.If(r, z3.BitVecVal(1, 32), z3.BitVecVal(0, 32)))
    m = re.fullmatch(r'avx512\.mask\.(add|sub|mul|div)\.(ss|sd)\.round', n)
    m = re.fullmatch(r'(avx512)\.(add|sub|mul|div)\.(ps|pd)\.512', n)
    if m:
        w = fw(T[0]); return [s.fbin('f' + m.group(2), x, y, w) for x, y in zip(A[0], A[1])]
    m = re.fullmatch(r'avx512\.vfmadd\.(ps|pd)\.512', n)
    if m: return [fma(s, x, y, z) for x, y, z in zip(A[0], A[1], A[2])]
    m = re.fullmatch(r'fma\.vfmaddsub\.(ps|pd)(\.256)?', n)
    if m:
        w = fw(T[0]); out = []
        for i, (x, y, z) in enumerate(zip(*A[:3])):
            out.append(fma(s, x, y, z if i % 2 else s.fneg(z, w)))
        return out
    m = re.fullmatch(r'(sse3|avx)\.addsub\.(ps|pd)(\.256)?', n)
    if m:
        w = fw(T[0]); return [s.fbin('fadd' if i % 2 else 'fsub', x, y, w) for i, (x, y) in enumerate(zip(A[0], A[1]))]
    m = re.fullmatch(r'(ssse3|avx2)\.pabs\.(b|w|d)', n)
    m = re.fullmatch(r'(sse|sse2)\.sqrt\.(ss|sd)', n)
    if m:
        w = fw(T[0]); return [f1(s, 'sqrt', A[0][0], w)] + list(A[0][1:])
    m = re.fullmatch(r'avx512\.mask\.(storeu|store|loadu|load)\..*', n)
    m = re.fullmatch(r'(sse|sse2)\.(cmp)\.(ps|pd)|avx\.cmp\.(ps|pd)\.256', n)
    if m:
        w = fw(T[0]); imm = A[2]
        pred = {0: 'oeq', 1: 'olt', 2: 'ole', 3: 'uno', 4: 'une', 5: 'uge', 6: 'ugt', 7: 'ord', 8: 'ueq', 9: 'ult', 10: 'ule', 11: 'false', 12: 'one', 13: 'oge', 14: 'ogt', 15: 'true',
                16: 'oeq', 17: 'olt', 18: 'ole', 19: 'uno', 20: 'une', 21: 'uge', 22: 'ugt', 23: 'ord', 24: 'ueq', 25: 'ult', 26: 'ule', 27: 'false', 28: 'one', 29: 'oge', 30: 'ogt', 31: 'true'}[imm]
        out = []
        for x, y in zip(A[0], A[1]):
            c = s.fcmp(pred, x, y, w)
            if isinstance(c, int): out.append(D.from_int_bits(mask(-1, w) if c else 0, w) if D.name == 'bits' else (mask(-1, w) if c else 0))
            else:
                if D.name != 'bits': out.append(simp(z3.If(c, z3.BitVecVal(mask(-1, w), w), z3.BitVecVal(0, w))))
                else: out.append(FV(w, bv=simp(z3.If(c, z3.BitVecVal(mask(-1, w), w), z3.BitVecVal(0, w)))))
        return out
    raise EncodingError('x86 intrinsic ' + name)


def sizeof_el(vty):
    from .sym import sizeof
    return sizeof(vty.el)


def bitmanip(s, name, I, A, T):
    w = iw(T[0])
    def one(x, *rest):
        if name.startswith('llvm.ctpop'):
            if isinstance(x, int): return bin(x).count('1')
            acc = z3.BitVecVal(0, w)
            for i in range(w): acc = acc + z3.ZeroExt(w - 1, z3.Extract(i, i, x))
            return simp(acc)
        if name.startswith('llvm.cttz'):
            if isinstance(x, int):
                if x == 0: return w
                return (x & -x).bit_length() - 1
            r = z3.BitVecVal(w, w)
            for i in range(w - 1, -1, -1): r = z3.If(z3.Extract(i, i, x) == 1, z3.BitVecVal(i, w), r)
            return simp(r)
        if name.startswith('llvm.ctlz'):
            if isinstance(x, int): return w - x.bit_length()
            r = z3.BitVecVal(w, w)
            for i in range(w): r = z3.If(z3.Extract(i, i, x) == 1, z3.BitVecVal(w - 1 - i, w), r)
            return simp(r)
        if name.startswith('llvm.bswap'):
            if isinstance(x, int): return int.from_bytes(x.to_bytes(w // 8, 'little'), 'big')
            return simp(z3.Concat(*[z3.Extract(8 * i + 7, 8 * i, x) for i in range(w // 8)]))
        raise EncodingError(name)
    if name.startswith(('llvm.fshl', 'llvm.fshr', 'llvm.usub', 'llvm.uadd', 'llvm.sadd', 'llvm.ssub', 'llvm.umul', 'llvm.smul')):
        if name.startswith('llvm.umul.with.overflow'):
            a, b = A
            if isinstance(a, int) and isinstance(b, int):
                p = a * b; return [mask(p, w), int(p >> w != 0)]
            aa = z3.ZeroExt(w, bv(a, w)); bb = z3.ZeroExt(w, bv(b, w)); p = aa * bb
            return [simp(z3.Extract(w - 1, 0, p)), simp(z3.Extract(2 * w - 1, w, p) != 0)]
        raise EncodingError(name)
    x = A[0]
    if isinstance(x, list): return [one(s.as_int(v, w)) for v in x]
    return one(s.as_int(x, w))
