"""Cases: one wrapper instantiation + its specification; path exploration; obligation discharge."""
import z3, time, os, json, traceback, re
from fractions import Fraction
from .vals import *
from .ir import *
from .sym import Interp, PathEnd, MemViolation, Stats, CondVal, sizeof
from .fdom import BitsDom, RealDom, UFDom, U
from . import smt

CT = {  # c type -> (kind, bits)
    'float': ('f', 32), 'double': ('f', 64), 'int': ('i', 32), 'long long': ('i', 64), 'int32_t': ('i', 32),
    'int64_t': ('i', 64), 'size_t': ('i', 64), 'unsigned': ('i', 32), 'bool': ('i', 8), 'uint8_t': ('i', 8),
    'unsigned long long': ('i', 64), 'int16_t': ('i', 16), 'uint32_t': ('i', 32), 'long': ('i', 64), 'char': ('i', 8),
    'cfloat': ('f', 32), 'cdouble': ('f', 64),
}
CXX = {'cfloat': 'std::complex<float>', 'cdouble': 'std::complex<double>'}
SHORT = {'float': 'f32', 'double': 'f64', 'int': 'i32', 'long long': 'i64', 'cfloat': 'c32', 'cdouble': 'c64', 'bool': 'b8',
         'size_t': 'u64', 'long': 'i64', 'int16_t': 'i16', 'uint32_t': 'u32'}


def cxx(t): return CXX.get(t, t)
def ncomp(t): return 2 if t in ('cfloat', 'cdouble') else 1


class Buf:
    def __init__(s, name, cty, n, role='in', align=None, init='sym'):
        s.name = name; s.cty = cty; s.n = n * ncomp(cty); s.role = role; s.kind, s.w = CT[cty]
        s.es = s.w // 8; s.align = align or s.es; s.init = init   # init: 'sym' | 'undef' | list of python values
        s.nel = n; s.fixed = {}   # element index -> concrete value (rest symbolic)

    def cparam(s):
        c = 'const ' if s.role == 'in' else ''
        return f'{c}{cxx(s.cty)}* {s.name}'

    def var(s, i): return f'{s.name}{i}'


class Scal:
    def __init__(s, name, cty='int', value=None):
        s.name = name; s.cty = cty; s.kind, s.w = CT[cty]; s.value = value; s.role = 'scalar'
    def cparam(s): return f'{s.cty} {s.name}'


class PathResult:
    def __init__(s, it, status, ret, bufs, info=''):
        s.pc = list(it.pc); s.status = status; s.ret = ret; s.bufs = bufs; s.viol = it.viol; s.taken = it.taken
        s.heap = it.heap_calls; s.info = info; s.notes = it.notes


class Case:
    """one harness: kernel wrapper `k_<id>` (+ optional reference `r_<id>`) with identical signatures"""
    dom = 'bits'          # 'bits' | 'real'
    div = 'plain'         # real-domain division mode
    nameall = False
    timeout = 10          # per obligation, seconds
    max_paths = 64
    logic = None
    fresh = False         # fresh solver per obligation (NRA)
    portfolio = True      # on unknown, try the external solver binaries

    def __init__(s, cid, args, kernel_src, ref_src=None, desc=None, pre=None):
        s.id = cid; s.args = args; s.kernel_src = kernel_src; s.ref_src = ref_src; s.desc = desc or cid
        s.pre_fn = pre; s.expect_compile = True

    def smt_logic(s):
        if s.logic: return s.logic
        uf = getattr(s, 'uses_uf', False)
        if s.dom == 'uf' or getattr(s, 'uf_int', False): return 'QF_UFBV'
        if s.dom == 'real': return 'QF_UFNRA' if uf else 'QF_NRA'
        hasf = any(a.kind == 'f' for a in s.args)
        if hasf: return None if uf else 'QF_BVFP'
        return 'QF_UFBV' if uf else 'QF_BV'

    # ---- C++ source
    def sig(s): return ', '.join(a.cparam() for a in s.args)

    def source(s):
        out = [f'extern "C" __attribute__((noinline)) void k_{s.id}({s.sig()}) {{ {s.kernel_src} }}']
        if s.ref_src is not None:
            out.append(f'extern "C" __attribute__((noinline)) void r_{s.id}({s.sig()}) {{ {s.ref_src} }}')
        if getattr(s, 'alt_ref_src', None) is not None:
            out.append(f'extern "C" __attribute__((noinline)) void q_{s.id}({s.sig()}) {{ {s.alt_ref_src} }}')
        return '\n'.join(out)

    # ---- symbolic inputs
    def mkdom(s):
        if s.dom == 'uf': return UFDom()
        return BitsDom() if s.dom == 'bits' else RealDom(s.div, s.nameall)

    def sym_scalar(s, a):
        if a.value is not None: return a.value
        return z3.BitVec(a.name, a.w)

    def elem_var(s, a, i, dom):
        if a.kind == 'f': return dom.var(a.var(i), a.w)
        return z3.BitVec(a.var(i), a.w)

    def make_args(s, it, dom):
        vals = []; bufs = {}
        for a in s.args:
            if isinstance(a, Scal):
                if a.kind == 'f': vals.append(dom.var(a.name, a.w))
                else: vals.append(s.sym_scalar(a))
                continue
            r = it.new_region(a.name, a.n * a.es, a.align, 'arg', writable=(a.role != 'in'))
            if a.init == 'sym' and a.role != 'out':
                for i in range(a.n):
                    if i in a.fixed:
                        v = a.fixed[i]
                        r.cells[i * a.es] = ((dom.const(f2bits(float(v), 64), a.w) if a.kind == 'f' else mask(int(v), a.w)), a.es)
                    else: r.cells[i * a.es] = (s.elem_var(a, i, dom), a.es)
            elif a.init == 'sym' and a.role == 'out':
                pass   # uninitialised: an element the kernel leaves unwritten stays UNDEF and is reported
            elif isinstance(a.init, list):
                for i, v in enumerate(a.init):
                    if a.kind == 'f': r.cells[i * a.es] = (dom.const(f2bits(float(v), 64), a.w), a.es)
                    else: r.cells[i * a.es] = (mask(int(v), a.w), a.es)
            r.wlog = []
            bufs[a.name] = r; vals.append(Ptr(r, 0))
        return vals, bufs

    def pre(s, V):
        """V: name -> z3 var for scalars; returns list of constraints"""
        return s.pre_fn(V) if s.pre_fn else []

    def scalar_vars(s):
        return Vars(s)

    # ---- exploration
    def explore(s, mod, fname, dom_factory, base_pc, stats, max_paths=None):
        paths = []; work = [[]]; max_paths = max_paths or s.max_paths
        while work:
            dec = work.pop()
            dom = dom_factory()
            it = Interp(mod, dom, decisions=dec, pc=base_pc, stats=stats); it.name_ite = getattr(s, 'name_ite', False); it.uf_int = getattr(s, 'uf_int', False)
            args, bufs = s.make_args(it, dom)
            status = 'ok'; ret = None; info = ''
            try:
                ret = it.run(fname, args)
            except PathEnd as e:
                status = e.status; info = e.info
            if status != 'infeasible':
                pr = PathResult(it, status, ret, bufs, info); pr.dom = dom; paths.append(pr)
            for k in range(len(dec), len(it.taken)):
                ch, feas = it.taken[k]
                for alt in feas:
                    if alt != ch: work.append([c for c, _ in it.taken[:k]] + [alt])
            if len(paths) + len(work) > max_paths:
                raise EncodingError(f'path budget {max_paths} exceeded')
        return paths

    # ---- reading outputs
    def out_elems(s, it_or_none, region, a):
        """list of element values of buffer `a` after the run (coerced to its element type)"""
        out = []
        tmp = Interp.__new__(Interp)
        for i in range(a.n):
            out.append(region.cells.get(i * a.es))
        return out

    def read_elem(s, it, region, a, i):
        v = it.load_raw(region, i * a.es, a.es)
        return v

    # ---- obligations
    def obligations(s, mod, kp, stats):
        """default: kernel outputs == reference outputs, element by element; returns list of Obl"""
        obls = []
        rpaths = s.explore(mod, 'r_' + s.id, lambda: s.share_dom(kp.dom), kp.pc, stats)
        for rp in rpaths:
            if rp.status != 'ok': raise EncodingError('reference path ended with ' + rp.status)
            pc = rp.pc
            for a in s.args:
                if isinstance(a, Scal) or a.role == 'in': continue
                obls += s.compare_buf(a, kp, rp, pc)
        if getattr(s, 'alt_ref_src', None) is not None:
            # documented alternative evaluation (e.g. reciprocal-multiply): element-wise disjunction of the two references
            qp = s.explore(mod, 'q_' + s.id, lambda: s.share_dom(kp.dom), kp.pc, stats)
            if len(qp) != 1 or len(rpaths) != 1 or qp[0].status != 'ok': raise EncodingError('alternative reference forks')
            alt = []
            for a in s.args:
                if isinstance(a, Scal) or a.role == 'in': continue
                alt += s.compare_buf(a, kp, qp[0], qp[0].pc)
            for o, o2 in zip(obls, alt):
                if o.goal is not None and o2.goal is not None: o.goal = z3.Or(o.goal, o2.goal); o.note = 'either reference'
        return obls

    def share_dom(s, dom):
        return dom   # reference shares purification variables / UFs with the kernel run

    def compare_buf(s, a, kp, rp, pc):
        obls = []
        kr = kp.bufs[a.name]; rr = rp.bufs[a.name]
        rd = Reader(kp.dom)
        for i in range(a.n):
            kv = rd.elem(kr, a, i); rv = rd.elem(rr, a, i)
            label = f'{a.name}[{i}]'
            obls.append(s.eq_obl(label, kv, rv, a, pc, kp.dom))
        return obls

    def depth_bound(s):
        return None

    def eq_obl(s, label, kv, rv, a, pc, dom):
        if isinstance(rv, Undef):
            # reference leaves it unwritten -> kernel must too (frame) : only meaningful for inout
            return Obl(label, None, pc, note='ref-unwritten', trivially=isinstance(kv, Undef), kind='frame')
        if isinstance(kv, Undef) or isinstance(kv, CondVal) or (isinstance(kv, Pack) and any(isinstance(x, Undef) for x, _ in kv.parts)):
            return Obl(label, z3.BoolVal(False), pc, note='kernel leaves element unwritten or conditionally written', kind='unwritten')
        if isinstance(rv, CondVal): raise EncodingError('reference conditionally writes')
        if a.kind == 'f':
            rd = Reader(dom)
            kf = rd.as_float(kv, a.w); rf = rd.as_float(rv, a.w)
            if dom.name == 'bits' and getattr(s, 'fcompare', 'bits') == 'fpeq':
                x, y = kf.asfp(), rf.asfp()
                o = Obl(label, z3.Or(z3.fpEQ(x, y), z3.And(z3.fpIsNaN(x), z3.fpIsNaN(y))), pc)
            else:
                o = Obl(label, dom.eq(kf, rf), pc)
            if dom.name == 'real': o.depth = (kf.depth, rf.depth)
            return o
        kb = as_bits(kv, a.w); rb = as_bits(rv, a.w)
        if isinstance(kb, int) and isinstance(rb, int): return Obl(label, z3.BoolVal(kb == rb), pc)
        return Obl(label, bv(kb, a.w) == bv(rb, a.w), pc)


def as_bits(v, w):
    if isinstance(v, int): return v
    if isinstance(v, FV): return v.bits()
    if isinstance(v, Pack):
        b = pack_bits(v)
        if b is None: raise EncodingError('bits of pack')
        return b
    if z3.is_bool(v): return bv(v, w)
    return v


class Reader:
    def __init__(s, dom):
        s.it = Interp.__new__(Interp); s.it.dom = dom; s.dom = dom
    def elem(s, region, a, i):
        return Interp.load_raw(s.it, region, i * a.es, a.es)
    def as_float(s, v, w):
        return Interp.as_float(s.it, v, w)


class Obl:
    """prove: pc ∧ hyp ⇒ goal.   goal None + trivially flag: decided structurally (recorded as such)"""
    def __init__(s, label, goal, pc, hyp=None, note='', trivially=None, kind='value'):
        s.label = label; s.goal = goal; s.pc = pc; s.hyp = hyp or []; s.note = note; s.trivially = trivially
        s.kind = kind; s.depth = None; s.result = None; s.model = None; s.time = 0.0


class Vars(dict):
    """precondition vocabulary: V['f'] scalar ints; V.el('a', i) element variable (BitVec in the bits domain / for ints,
    Real in the real domain); V.fp('a', i) the z3 FloatingPoint view (bits domain); V.nonan('a') etc."""
    def __init__(s, case):
        s.case = case
        for a in case.args:
            if isinstance(a, Scal) and a.kind == 'i': s[a.name] = z3.BitVec(a.name, a.w) if a.value is None else a.value
        s.bufs = {a.name: a for a in case.args if isinstance(a, Buf)}

    def el(s, name, i):
        a = s.bufs[name]
        if a.kind == 'f' and s.case.dom == 'real': return z3.Real(a.var(i))   # ('uf' and 'bits' use bit-vectors)
        return z3.BitVec(a.var(i), a.w)

    def fp(s, name, i):
        a = s.bufs[name]; return z3.fpBVToFP(z3.BitVec(a.var(i), a.w), FSORT[a.w])

    def nonan(s, *names):
        out = []
        if s.case.dom == 'real': return out
        for n in names:
            a = s.bufs[n]
            if a.kind != 'f': continue
            for i in range(a.n): out.append(z3.Not(z3.fpIsNaN(s.fp(n, i))))
        return out

    def finite(s, *names):
        out = []
        if s.case.dom == 'real': return out
        for n in names:
            a = s.bufs[n]
            if a.kind != 'f': continue
            for i in range(a.n): out += [z3.Not(z3.fpIsNaN(s.fp(n, i))), z3.Not(z3.fpIsInf(s.fp(n, i)))]
        return out
