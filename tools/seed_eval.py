#!/usr/bin/env python3
"""tools/seed_eval.py import <mutant-dir> <PROP> [note]      copy a confirmed sub-agent change into /verif/seeded/<name>/
   tools/seed_eval.py run [name ...]                        apply each seeded patch to /repo, run its property's quick check,
                                                            record the verdict in meta.json, undo the patch (git checkout -- .)
   tools/seed_eval.py index                                 regenerate seeded/INDEX.md
Nothing is ever committed to /repo by this tool."""
import sys, os, json, shutil, subprocess, re, time
VERIF = os.path.dirname(os.path.dirname(os.path.abspath(__file__)))
SEED = os.path.join(VERIF, 'seeded')


def sh(cmd, **kw): return subprocess.run(cmd, shell=True, capture_output=True, text=True, **kw)


def do_import(src, prop, also=''):
    name = os.path.basename(src.rstrip('/'))
    if not re.match(r'C\d\d_', name): name = f'{prop}_{name}'
    d = os.path.join(SEED, name); os.makedirs(d, exist_ok=True)
    for f in ('patch.diff', 'demo.cpp', 'README.txt'):
        if os.path.exists(os.path.join(src, f)): shutil.copy(os.path.join(src, f), os.path.join(d, f))
    conf = {}
    summ = '/tmp/confirm/summary.txt'
    if os.path.exists(summ):
        for l in open(summ):
            if l.split(' ')[0] == os.path.basename(src.rstrip('/')): conf = dict(kv.split('=', 1) for kv in l.split()[1:])
    readme = open(os.path.join(d, 'README.txt')).read() if os.path.exists(os.path.join(d, 'README.txt')) else ''
    meta = {'name': name, 'property': prop, 'also_breaks': also.split(',') if also else [], 'origin': 'independent sub-agent given only the property text and a scratch worktree',
            'confirmed_in_scratch_worktree': conf, 'what_i_ran': 'tools/confirm_seed.sh: demo on clean tree (exit 0) and with patch (exit !=0); cmake+ninja build of the pinned suite with the patch and ctest (only the 5 baseline failures)',
            'needs_to_manifest': extract_needs(readme), 'checks': {}}
    json.dump(meta, open(os.path.join(d, 'meta.json'), 'w'), indent=1)
    print('imported', name)


def extract_needs(readme):
    m = re.search(r'(?is)(needs?|what is needed|trigger|manifest)[^\n]*\n(.{0,900})', readme)
    return (m.group(0)[:700] if m else readme[:500]).strip()


def run(names):
    names = names or sorted(os.listdir(SEED))
    for n in names:
        d = os.path.join(SEED, n); mp = os.path.join(d, 'meta.json')
        if not os.path.exists(mp): continue
        meta = json.load(open(mp))
        if sh('git -C /repo status --porcelain').stdout.strip(): print('REPO DIRTY - abort'); sys.exit(2)
        a = sh(f'git -C /repo apply {d}/patch.diff')
        if a.returncode: print(n, 'APPLY-FAIL', a.stderr[:200]); continue
        try:
            for prop in [meta['property']] + meta.get('also_breaks', []):
                t = time.time()
                p = sh(f'cd {VERIF} && ./check {prop} --tier quick --no-evidence', timeout=3000)
                viol = [l for l in p.stdout.split('\n') if l.startswith('VIOLATION')]
                summ = [l for l in p.stdout.split('\n') if l.startswith(prop + ' quick:')]
                meta['checks'][prop] = {'exit': p.returncode, 'caught': p.returncode == 1 and bool(viol), 'violations': len(viol), 'first': [v[:300] for v in viol[:3]],
                                        'summary': summ[-1] if summ else p.stdout[-300:], 'wall_s': round(time.time() - t)}
                print(n, prop, 'exit', p.returncode, 'violations', len(viol), round(time.time() - t), 's', flush=True)
        finally:
            sh('git -C /repo checkout -- .')
        json.dump(meta, open(mp, 'w'), indent=1)
    index()


def index():
    rows = []
    for n in sorted(os.listdir(SEED)):
        mp = os.path.join(SEED, n, 'meta.json')
        if not os.path.exists(mp): continue
        m = json.load(open(mp)); c = m.get('confirmed_in_scratch_worktree', {})
        chk = '; '.join(f"{p}: {'CAUGHT (' + str(v['violations']) + ' VIOLATION lines)' if v.get('caught') else 'missed (exit ' + str(v.get('exit')) + ')'}" for p, v in m.get('checks', {}).items()) or 'not evaluated yet'
        rows.append(f"| {n} | {m['property']} | demo clean={c.get('demo_clean', '?')} mutated={c.get('demo_mut', '?')} suite={c.get('suite', '?')} | {chk} |")
    open(os.path.join(SEED, 'INDEX.md'), 'w').write('# Seeded changes\n\n| change | property | confirmation (scratch worktree) | quick check verdict with the patch applied to /repo |\n|---|---|---|---|\n' + '\n'.join(rows) + '\n')


if __name__ == '__main__':
    os.makedirs(SEED, exist_ok=True)
    if sys.argv[1] == 'import': do_import(sys.argv[2], sys.argv[3], sys.argv[4] if len(sys.argv) > 4 else '')
    elif sys.argv[1] == 'run': run(sys.argv[2:])
    else: index()
