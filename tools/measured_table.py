#!/usr/bin/env python3
"""print the DESIGN.md A.2 'measured' table from evidence/*.json"""
import os, json
V = os.path.dirname(os.path.dirname(os.path.abspath(__file__)))
print('| property | programs | obligations | discharged (unsat) | solver unknown | inconclusive cases | native validations | configs | solver s | wall s | known findings hit |\n|---|---|---|---|---|---|---|---|---|---|---|')
for i in range(1, 21):
    p = f'C{i:02d}'; f = os.path.join(V, 'evidence', p + '.json')
    if not os.path.exists(f): continue
    e = json.load(open(f)); c = e['coverage']
    kf = c.get('known_findings_hit') or {}
    kfs = ', '.join(kf.keys() if isinstance(kf, dict) else [str(x) for x in kf]) or '-'
    nc = len(c['configs']) if isinstance(c.get('configs'), list) else c.get('configs')
    print(f"| {p} | {c['programs']} | {c['obligations']} | {c['discharged']} | {c['solver_unknown']} | {c['inconclusive_count']} | {c['traces_validated_against_impl']} | {nc} | {round(c.get('solver_time_s', 0))} | {round(e['wall_s'])} | {kfs} |")
