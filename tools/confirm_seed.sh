#!/bin/bash
# usage: confirm_seed.sh <worktree> <mutant-dir>...   -- confirms each seeded change in a scratch worktree:
#   demo passes on the clean tree, fails with the patch; the pinned suite builds and shows only the 5 baseline failures with the patch
WT=$1; shift
BASEFAIL="test_fixed_views_nd_2 test_mixed_views test_simd_vectors test_tensormap test_views_nd_2"
for M in "$@"; do
  name=$(basename $M); out=/tmp/confirm/$name; mkdir -p $out
  git -C $WT checkout -q -- . ; git -C $WT clean -fdq -e _b
  # demo command from README (first line containing a compiler invocation), retargeted to the worktree
  cmd=$(grep -hE "^\s*(g\+\+|clang\+\+(-14)?) " $M/README.txt | head -1 | sed -E "s#-I\s*/tmp/mut[0-9]+#-I$WT#g; s#demo.cpp#$M/demo.cpp#; s#-o\s+\S+#-o $out/demo#; s#&&.*##")
  [ -z "$cmd" ] && cmd="g++ -std=c++17 -O2 -I$WT $M/demo.cpp -o $out/demo"
  echo "$cmd" > $out/demo_cmd.txt
  ( eval "$cmd" ) > $out/demo_build_clean.log 2>&1; (cd $out && timeout 120 ./demo) > $out/demo_clean.log 2>&1; rc_clean=$?
  git -C $WT apply $M/patch.diff || { echo "$name APPLY-FAIL" | tee -a /tmp/confirm/summary.txt; continue; }
  ( eval "$cmd" ) > $out/demo_build_mut.log 2>&1; (cd $out && timeout 120 ./demo) > $out/demo_mut.log 2>&1; rc_mut=$?
  rm -rf $WT/_b
  ( cmake -G Ninja -S $WT -B $WT/_b -DCMAKE_BUILD_TYPE=RelWithDebInfo -DCMAKE_CXX_FLAGS=-Wno-error > $out/cfg.log 2>&1 && nice -n 15 cmake --build $WT/_b -j 10 > $out/build.log 2>&1 ); rc_build=$?
  (cd $WT/_b && ctest -j8 --timeout 900 > $out/ctest.log 2>&1)
  failed=$(grep -E "^\s+[0-9]+ - " $out/ctest.log | awk '{print $3}' | sort | tr '\n' ' ' | sed 's/ $//')
  suite=OK; [ "$failed" != "$BASEFAIL" ] && suite="DIFF[$failed]"
  echo "$name demo_clean=$rc_clean demo_mut=$rc_mut build=$rc_build suite=$suite" | tee -a /tmp/confirm/summary.txt
  git -C $WT checkout -q -- . ; rm -rf $WT/_b
done
