#!/usr/bin/env python3
"""regenerates /verif/MANIFEST.json from the property modules that exist (props/cNN.py)"""
import json, os, sys, importlib
VERIF = os.path.dirname(os.path.dirname(os.path.abspath(__file__)))
sys.path.insert(0, VERIF)
props = [json.loads(l) for l in open(os.path.join(VERIF, 'properties.jsonl'))]
checks = []; na = []
PENDING = {}
for p in props:
    pid = p['id']; path = os.path.join(VERIF, 'props', pid.lower() + '.py')
    if not os.path.exists(path):
        na.append({'property_id': pid, 'reason': PENDING.get(pid, 'check not built yet in this round (see DESIGN.md section 8 for the planned encoding)')}); continue
    pm = importlib.import_module('props.' + pid.lower())
    if getattr(pm, 'NOT_APPLICABLE', None):
        na.append({'property_id': pid, 'reason': pm.NOT_APPLICABLE}); continue
    checks.append({
        'property_id': pid,
        'quick_cmd': f'./check {pid} --tier quick',
        'thorough_cmd': f'./check {pid} --tier thorough',
        'evidence_file': f'/verif/evidence/{pid}.json',
        'replay_cmd_template': './check --replay {path}',
        'engine': 'fsv',
        'level_claimed': {'category': getattr(pm, 'LEVEL', 'model_checking'), 'text': pm.EXPLANATION, 'design_ref': f'DESIGN.md section 8 ({pid})'},
        'level_note': getattr(pm, 'LEVEL_NOTE', 'bounded: the instantiations (shapes, types, forms, configurations) listed in the evidence file; all operand values / indices inside them are symbolic and decided by z3. Trusted: clang++-14 as IR producer, the fsv IR interpreter (validated against native execution each run), z3.'),
        'technique': getattr(pm, 'TECHNIQUE', 'symbolic execution of clang-14 LLVM IR of the real kernels + SMT (z3): solver decides kernel == reference for all values'),
    })
m = {
    'version': 1,
    'setup_cmd': 'python3-vt -m fsv.setup',
    'hooks': {'guard': 'FASTOR_VERIF', 'enable': 'none needed: harnesses call the public API of the headers in /repo (FASTOR_ROOT) and are compiled by clang++-14 per configuration',
              'baseline_off_cmd': 'cmake --build /repo/_build && ctest --test-dir /repo/_build -j8 --timeout 900', 'source_commits': [], 'add_only': True},
    'engines': [{'name': 'fsv', 'path': '/verif/fsv', 'serves_properties': [c['property_id'] for c in checks],
                 'kind_free_text': 'own LLVM-IR symbolic interpreter (python) + z3 4.8.12/5.1 (cvc5 for cross-checks); clang++-14 produces the IR from /repo on every run'}],
    'checks': checks,
    'not_applicable': na,
    'notes': 'known findings: /verif/known_findings.json; replays under /verif/replays/<property>/; seeded changes under /verif/seeded/',
}
json.dump(m, open(os.path.join(VERIF, 'MANIFEST.json'), 'w'), indent=1)
print('checks', [c['property_id'] for c in checks], 'n/a', [x['property_id'] for x in na])
