#!/usr/bin/env python3
"""print the DESIGN.md A.4 table (which check catches which seeded change) from seeded/*/meta.json"""
import os, json
SEED = os.path.join(os.path.dirname(os.path.dirname(os.path.abspath(__file__))), 'seeded')
rows = []
for n in sorted(os.listdir(SEED)):
    mp = os.path.join(SEED, n, 'meta.json')
    if not os.path.exists(mp): continue
    m = json.load(open(mp))
    caught = [f"{p} ({v['violations']})" for p, v in m.get('checks', {}).items() if v.get('caught')]
    missed = [p for p, v in m.get('checks', {}).items() if not v.get('caught')]
    first = ''
    for p, v in m.get('checks', {}).items():
        if v.get('caught') and v.get('first'):
            f = v['first'][0]; first = f.split('replay=')[-1].split('/')[-1].split(' ')[0][:60]; break
    rows.append(f"| {n} | {m['property']} | {', '.join(caught) or '—'} | {', '.join(missed) or '—'} | {first} | {m.get('note', '')} |")
print('| seeded change | breaks | caught by quick check (VIOLATION lines) | evaluated, not caught | first replay | note |\n|---|---|---|---|---|---|')
print('\n'.join(rows))
